package main

import (
	"fmt"
	"sort"
	"strings"
)

// names used as keys by the catalogue universe
var universeKeys = map[string]bool{"s": true, "n": true, "f": true, "vs": true, "l": true, "l2": true, "h": true, "t": true,
	"t2": true, "t3": true, "z": true, "z2": true, "z3": true, "x": true, "dst": true, "newkey": true, "ex": true,
	"a1": true, "b1": true, "k1": true, "k2": true, "k3": true, "k4": true}

func kindIn(pre *State, db int, key string) string {
	v, ok := pre.Alpha[db][key]
	if !ok {
		return "missing"
	}
	k := v.Kind
	if v.Exp != 0 {
		if v.Exp < pre.NowMs {
			k += "!expired"
		} else {
			k += "!ttl"
		}
	}
	return k
}

// abstractCmd renders a command with key arguments replaced by the kind of the key in the pre-state.
func abstractCmd(pre *State, db int, args []string) string {
	return abstractCmdKeys(pre, db, args, universeKeys)
}

func abstractCmdKeys(pre *State, db int, args []string, keys map[string]bool) string {
	out := make([]string, len(args))
	for i, a := range args {
		switch {
		case i == 0:
			out[i] = strings.ToUpper(a)
		case keys[a]:
			out[i] = "<" + kindIn(pre, db, a) + ">"
		default:
			out[i] = fmt.Sprintf("%q", a)
			if len(a) > 0 && !strings.ContainsAny(a, " \r\n\x00\"\\") {
				out[i] = a
			}
		}
	}
	return strings.Join(out, " ")
}

// connDB returns the database connection ci currently uses according to the dump.
func connDB(st *State, ci int) int {
	if info, ok := st.Dump.Conns[fmt.Sprintf("c%d", ci)]; ok {
		return info.Database
	}
	return 0
}

// sharedStructure reports pairs of distinct keys whose stored values share mutable structure.
func sharedStructure(st *State) []string {
	type ent struct {
		name string
		refs [][2]uintptr
	}
	var ents []ent
	for db, m := range st.Dump.Store {
		for k, e := range m {
			if len(e.Refs) > 0 {
				ents = append(ents, ent{fmt.Sprintf("db%d:%s", db, k), e.Refs})
			}
		}
	}
	sort.Slice(ents, func(i, j int) bool { return ents[i].name < ents[j].name })
	var out []string
	for i := 0; i < len(ents); i++ {
		for j := i + 1; j < len(ents); j++ {
			if overlap(ents[i].refs, ents[j].refs) {
				out = append(out, ents[i].name+"~"+ents[j].name)
			}
		}
	}
	return out
}

func overlap(a, b [][2]uintptr) bool {
	for _, x := range a {
		for _, y := range b {
			if x[0] < y[1] && y[0] < x[1] {
				return true
			}
		}
	}
	return false
}

// alphaDiff describes the difference between two abstract datasets (ignoring keys in `ignore`).
func alphaDiff(pre, post Alpha, ignore func(db int, k string) bool) []string {
	var out []string
	dbs := map[int]bool{}
	for db := range pre {
		dbs[db] = true
	}
	for db := range post {
		dbs[db] = true
	}
	var dl []int
	for db := range dbs {
		dl = append(dl, db)
	}
	sort.Ints(dl)
	for _, db := range dl {
		keys := map[string]bool{}
		for k := range pre[db] {
			keys[k] = true
		}
		for k := range post[db] {
			keys[k] = true
		}
		for _, k := range sortedKeys(keys) {
			if ignore != nil && ignore(db, k) {
				continue
			}
			a, aok := pre[db][k]
			b, bok := post[db][k]
			switch {
			case aok && !bok:
				out = append(out, fmt.Sprintf("db%d:%s removed (was %s)", db, k, a))
			case !aok && bok:
				out = append(out, fmt.Sprintf("db%d:%s created (%s)", db, k, b))
			case a.String() != b.String():
				out = append(out, fmt.Sprintf("db%d:%s changed %s -> %s", db, k, a, b))
			}
		}
	}
	return out
}
