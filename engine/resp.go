package main

import (
	"errors"
	"fmt"
	"sort"
	"strconv"
	"strings"
)

// Independent strict RESP2/RESP3 parser (not tidwall/resp).  A reply must be
// consumed exactly; anything else is a framing violation.

type RV struct {
	K   byte // '+' simple, '-' error, ':' int, '$' bulk, '*' array, '_' null, ',' double, '#' bool, '%' map, '~' set, '>' push, '(' bignum, '=' verbatim
	S   string
	I   int64
	Arr []RV
	Nul bool // null bulk / null array
}

var errIncomplete = errors.New("incomplete")

func parseRESP(b []byte) (RV, int, error) {
	if len(b) == 0 {
		return RV{}, 0, errIncomplete
	}
	line := func(from int) (string, int, error) {
		for i := from; i+1 < len(b); i++ {
			if b[i] == '\r' {
				if b[i+1] != '\n' {
					return "", 0, fmt.Errorf("CR not followed by LF at %d", i)
				}
				return string(b[from:i]), i + 2, nil
			}
			if b[i] == '\n' {
				return "", 0, fmt.Errorf("bare LF inside line at %d", i)
			}
		}
		return "", 0, errIncomplete
	}
	k := b[0]
	switch k {
	case '+', '-', ':', ',', '#', '_', '(':
		s, n, err := line(1)
		if err != nil {
			return RV{}, 0, err
		}
		v := RV{K: k, S: s}
		switch k {
		case ':':
			i, err := strconv.ParseInt(s, 10, 64)
			if err != nil {
				return RV{}, 0, fmt.Errorf("bad integer %q", s)
			}
			v.I = i
		case ',':
			if _, err := strconv.ParseFloat(strings.Replace(s, "inf", "Inf", 1), 64); err != nil {
				return RV{}, 0, fmt.Errorf("bad double %q", s)
			}
		case '#':
			if s != "t" && s != "f" {
				return RV{}, 0, fmt.Errorf("bad bool %q", s)
			}
		case '_':
			if s != "" {
				return RV{}, 0, fmt.Errorf("bad null %q", s)
			}
			v.Nul = true
		}
		return v, n, nil
	case '$', '=':
		s, n, err := line(1)
		if err != nil {
			return RV{}, 0, err
		}
		l, err := strconv.Atoi(s)
		if err != nil || l < -1 {
			return RV{}, 0, fmt.Errorf("bad bulk length %q", s)
		}
		if l == -1 {
			return RV{K: '$', Nul: true}, n, nil
		}
		if len(b) < n+l+2 {
			return RV{}, 0, errIncomplete
		}
		if b[n+l] != '\r' || b[n+l+1] != '\n' {
			return RV{}, 0, fmt.Errorf("bulk of declared length %d not terminated by CRLF", l)
		}
		return RV{K: '$', S: string(b[n : n+l])}, n + l + 2, nil
	case '*', '~', '>', '%':
		s, n, err := line(1)
		if err != nil {
			return RV{}, 0, err
		}
		l, err := strconv.Atoi(s)
		if err != nil || l < -1 {
			return RV{}, 0, fmt.Errorf("bad aggregate length %q", s)
		}
		if l == -1 {
			return RV{K: '*', Nul: true}, n, nil
		}
		cnt := l
		if k == '%' {
			cnt = 2 * l
		}
		v := RV{K: k, Arr: make([]RV, 0, cnt)}
		for i := 0; i < cnt; i++ {
			e, m, err := parseRESP(b[n:])
			if err != nil {
				return RV{}, 0, err
			}
			v.Arr = append(v.Arr, e)
			n += m
		}
		return v, n, nil
	}
	return RV{}, 0, fmt.Errorf("unknown type byte %q", k)
}

// parseExact parses exactly one value that must consume all of b.
func parseExact(b []byte) (RV, error) {
	v, n, err := parseRESP(b)
	if err != nil {
		return RV{}, err
	}
	if n != len(b) {
		return RV{}, fmt.Errorf("%d trailing bytes after a complete reply", len(b)-n)
	}
	return v, nil
}

// parseAll parses a sequence of complete values covering b exactly.
func parseAll(b []byte) ([]RV, error) {
	var out []RV
	for len(b) > 0 {
		v, n, err := parseRESP(b)
		if err != nil {
			return out, err
		}
		out = append(out, v)
		b = b[n:]
	}
	return out, nil
}

func (v RV) IsErr() bool { return v.K == '-' }
func (v RV) IsNil() bool { return v.Nul }

// Text renders scalars the way a client library would hand them to the user.
func (v RV) Text() string {
	switch v.K {
	case ':':
		return strconv.FormatInt(v.I, 10)
	default:
		return v.S
	}
}

// String is a compact, unambiguous rendering for messages and signatures.
func (v RV) String() string {
	switch v.K {
	case '+':
		return "+" + strconv.Quote(v.S)
	case '-':
		return "-ERR(" + v.S + ")"
	case ':':
		return ":" + strconv.FormatInt(v.I, 10)
	case '$':
		if v.Nul {
			return "nil"
		}
		return strconv.Quote(v.S)
	case '_':
		return "nil"
	case ',', '#', '(':
		return string(v.K) + v.S
	}
	if v.Nul {
		return "nil[]"
	}
	var parts []string
	for _, e := range v.Arr {
		parts = append(parts, e.String())
	}
	return string(v.K) + "[" + strings.Join(parts, " ") + "]"
}

// Canon renders with arrays sorted (multiset comparison).
func (v RV) Canon(sorted bool) string {
	if len(v.Arr) == 0 {
		return v.String()
	}
	var parts []string
	for _, e := range v.Arr {
		parts = append(parts, e.Canon(sorted))
	}
	if sorted {
		sort.Strings(parts)
	}
	return string(v.K) + "[" + strings.Join(parts, " ") + "]"
}

// Strs returns the elements of an array reply as strings (nil elements as "\x00nil").
func (v RV) Strs() []string {
	out := make([]string, 0, len(v.Arr))
	for _, e := range v.Arr {
		if e.Nul {
			out = append(out, "\x00nil")
		} else {
			out = append(out, e.Text())
		}
	}
	return out
}

func encodeCmd(args []string) []byte {
	var sb strings.Builder
	fmt.Fprintf(&sb, "*%d\r\n", len(args))
	for _, a := range args {
		fmt.Fprintf(&sb, "$%d\r\n%s\r\n", len(a), a)
	}
	return []byte(sb.String())
}
