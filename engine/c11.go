package main

import (
	"crypto/sha256"
	"encoding/hex"
	"encoding/json"
	"fmt"
	"sort"
	"strings"
	"time"
)

// C11 — authentication and user lifecycle follow the stored credentials.
//
// SEQ search over (user table, identity of the probed connection, ACL file on the in-memory file system).
// c0 is the administrator, c1 the subject.  Reference user table (maintained from the path): per user
// {enabled, nopass, plaintext passwords, SHA-256 entries}.  Per transition:
//   AUTH / HELLO..AUTH succeed  <=> user exists and is enabled and (nopass or password in plaintext set or sha256(password) in hash set);
//     a failed attempt leaves identity and privileges unchanged; success makes the connection that user;
//   ACL SETUSER password/enable rules are reflected in the stored profile exactly (parser conformance);
//   a deleted or disabled user can no longer act (the next data command of its connection is refused or the connection is closed);
//   the default user cannot be deleted;
//   ACL SAVE followed by ACL LOAD REPLACE|MERGE or by a restart reproduces the same users and rules;
//   a new connection is the default user, authenticated only if that user needs no password.

type c11Check struct{}

func init() { register("C11", c11Check{}) }

func (c11Check) Describe() CheckInfo {
	return CheckInfo{
		Level: "model_checking",
		Rule: "explicit-state BFS over the real dispatcher and ACL module with the ACL file on the in-memory file system (JSON and YAML): administrator actions SETUSER x {on, off, >p, <p, #h, !h, nopass, resetpass, full rules}, DELUSER, SAVE, LOAD MERGE|REPLACE, restart; subject actions AUTH/HELLO AUTH with right, wrong, other user's and hash-valued passwords, ACL WHOAMI, a data probe. " +
			"Per-transition conformance to a reference user table. Non-trivial = distinct (state, action); states include the ACL table, connection identities and file content.",
		Assumptions: []string{"identity of a terminated connection is not compared (it is closed)"},
	}
}

type c11Args struct {
	Ext    string
	Shard  int
	Shards int
	Depth  int
	Prefix bool // start from a logged-in session and a saved ACL file (three actions deeper than the root)
}

func sha(s string) string { h := sha256.Sum256([]byte(s)); return hex.EncodeToString(h[:]) }

const c11Full = "+@all +all %RW~* +&*"

func c11Alphabet() []Action {
	full := strings.Fields(c11Full)
	su := func(user string, rules ...string) Action { return cmdOn(0, append([]string{"ACL", "SETUSER", user}, rules...)...) }
	return []Action{
		su("u", append([]string{"on", ">p1"}, full...)...), su("v", append([]string{"on", ">p1", ">pv"}, full...)...),
		su("u", "off"), su("u", "on"), su("u", ">p2"), su("u", "<p1"), su("u", "#"+sha("p3")), su("u", "!"+sha("p3")), su("u", "nopass"), su("u", "resetpass"),
		cmdOn(0, "ACL", "DELUSER", "u"), cmdOn(0, "ACL", "DELUSER", "default"), cmdOn(0, "ACL", "DELUSER", "u", "v"),
		cmdOn(0, "ACL", "SAVE"), cmdOn(0, "ACL", "LOAD", "MERGE"), cmdOn(0, "ACL", "LOAD", "REPLACE"), {K: "restart"},
		cmdOn(1, "AUTH", "u", "p1"), cmdOn(1, "AUTH", "u", "p2"), cmdOn(1, "AUTH", "u", "p3"), cmdOn(1, "AUTH", "u", "wrong"), cmdOn(1, "AUTH", "u", sha("p1")), cmdOn(1, "AUTH", "u", sha("p3")),
		cmdOn(1, "AUTH", "v", "p1"), cmdOn(1, "AUTH", "u", "pv"), cmdOn(1, "AUTH", "adminpw"), cmdOn(1, "AUTH", "wrong"), cmdOn(1, "AUTH", "nobody", "p1"),
		cmdOn(1, "HELLO", "3", "AUTH", "u", "p1"), cmdOn(1, "HELLO", "2", "AUTH", "u", "wrong"), cmdOn(1, "HELLO", "4", "AUTH", "u", "p1"),
		cmdOn(1, "ACL", "WHOAMI"), cmdOn(1, "GET", "a"),
		cmdOn(2, "AUTH", "u", "p1"), cmdOn(2, "GET", "a"),
	}
}

type c11User struct {
	Enabled, NoPass bool
	Plain, Hash     map[string]bool
}

type c11Ref struct {
	Users    map[string]*c11User
	Saved    map[string]*c11User // content of the ACL file (nil = never saved)
	Identity [3]string // user of connection i ("" = default); index 0 unused
	Authed   [3]bool
	Closed   [3]bool // the connection was terminated
	AdminOK  bool
}

func cloneUsers(m map[string]*c11User) map[string]*c11User {
	if m == nil {
		return nil
	}
	o := map[string]*c11User{}
	for k, u := range m {
		n := &c11User{Enabled: u.Enabled, NoPass: u.NoPass, Plain: map[string]bool{}, Hash: map[string]bool{}}
		for p := range u.Plain {
			n.Plain[p] = true
		}
		for p := range u.Hash {
			n.Hash[p] = true
		}
		o[k] = n
	}
	return o
}

func newC11Ref() *c11Ref {
	return &c11Ref{Users: map[string]*c11User{"default": {Enabled: true, Plain: map[string]bool{"adminpw": true}, Hash: map[string]bool{}}}, AdminOK: true}
}

func (r *c11Ref) canAuth(user, pw string) bool {
	u, ok := r.Users[user]
	if !ok || !u.Enabled {
		return false
	}
	return u.NoPass || u.Plain[pw] || u.Hash[sha(pw)]
}

// step applies an action to the reference; authOK reports the expected outcome of an authentication attempt.
func (r *c11Ref) step(a Action) (isAuth bool, authOK bool) {
	if a.K == "restart" {
		if r.Saved != nil {
			users := cloneUsers(r.Saved)
			if _, ok := users["default"]; !ok {
				users["default"] = &c11User{Enabled: true, Plain: map[string]bool{"adminpw": true}, Hash: map[string]bool{}}
			}
			r.Users = users
		} else {
			r.Users = newC11Ref().Users
		}
		r.Identity, r.Authed, r.Closed, r.AdminOK = [3]string{}, [3]bool{}, [3]bool{}, false
		return
	}
	if a.K != "cmd" {
		return
	}
	name := strings.ToUpper(a.A[0])
	switch {
	case a.C == 0 && !r.AdminOK:
		// after a restart the administrator connection is unauthenticated: its commands are refused (C06)
		return
	case name == "ACL" && strings.EqualFold(a.A[1], "SETUSER"):
		u, ok := r.Users[a.A[2]]
		if !ok {
			u = &c11User{Enabled: true, Plain: map[string]bool{}, Hash: map[string]bool{}}
			r.Users[a.A[2]] = u
		}
		for _, rule := range a.A[3:] {
			switch {
			case rule == "on":
				u.Enabled = true
			case rule == "off":
				u.Enabled = false
			case rule == "nopass":
				u.NoPass, u.Plain, u.Hash = true, map[string]bool{}, map[string]bool{}
			case rule == "resetpass":
				u.NoPass, u.Plain, u.Hash = false, map[string]bool{}, map[string]bool{}
			case rule[0] == '>':
				u.Plain[rule[1:]], u.NoPass = true, false
			case rule[0] == '<':
				delete(u.Plain, rule[1:])
			case rule[0] == '#':
				u.Hash[rule[1:]], u.NoPass = true, false
			case rule[0] == '!':
				delete(u.Hash, rule[1:])
			}
		}
	case name == "ACL" && strings.EqualFold(a.A[1], "DELUSER"):
		for _, n := range a.A[2:] {
			if n == "default" {
				continue
			}
			if _, ok := r.Users[n]; ok {
				delete(r.Users, n)
				for c := 1; c <= 2; c++ {
					if r.Authed[c] && r.Identity[c] == n {
						r.Closed[c] = true
					}
				}
			}
		}
	case name == "ACL" && strings.EqualFold(a.A[1], "SAVE"):
		r.Saved = cloneUsers(r.Users)
	case name == "ACL" && strings.EqualFold(a.A[1], "LOAD"):
		if r.Saved == nil {
			return
		}
		replace := strings.EqualFold(a.A[2], "REPLACE")
		for n, su := range r.Saved {
			if cur, ok := r.Users[n]; ok && !replace {
				// MERGE (semantics taken from the implementation's own description of Merge, the docs are silent):
				// the flags of the file win, credentials and rule lists are united
				cur.Enabled, cur.NoPass = su.Enabled, su.NoPass
				for p := range su.Plain {
					cur.Plain[p] = true
				}
				for p := range su.Hash {
					cur.Hash[p] = true
				}
			} else {
				r.Users[n] = cloneUsers(map[string]*c11User{n: su})[n]
			}
		}
	case a.C >= 1 && name == "AUTH":
		isAuth = true
		user, pw := "default", a.A[1]
		if len(a.A) == 3 {
			user, pw = a.A[1], a.A[2]
		}
		authOK = r.canAuth(user, pw)
		if authOK && !r.Closed[a.C] {
			r.Identity[a.C], r.Authed[a.C] = user, true
			if user == "default" {
				r.Identity[a.C] = ""
			}
		}
	case a.C >= 1 && name == "HELLO":
		isAuth = true
		// a protocol version other than 2 or 3 is refused as a whole: the credentials in it must not take effect
		authOK = r.canAuth(a.A[3], a.A[4]) && (a.A[1] == "2" || a.A[1] == "3")
		if authOK && !r.Closed[a.C] {
			r.Identity[a.C], r.Authed[a.C] = a.A[3], true
		}
	}
	return
}

func (c11Check) Units(tier string, seed int64) []Unit {
	var us []Unit
	depth, shards := 5, 32
	if tier == "thorough" {
		depth = 6
	}
	for _, ext := range []string{"json", "yaml"} {
		for s := 0; s < shards; s++ {
			d := depth
			if ext == "yaml" {
				d = depth - 1
			}
			b, _ := json.Marshal(c11Args{Ext: ext, Shard: s, Shards: shards, Depth: d})
			us = append(us, Unit{Name: fmt.Sprintf("%s-depth%d-shard%d", ext, d, s), Args: b})
		}
		for s := 0; s < 8; s++ {
			b, _ := json.Marshal(c11Args{Ext: ext, Shard: s, Shards: 8, Depth: depth - 2, Prefix: true})
			us = append(us, Unit{Name: fmt.Sprintf("%s-logged-in-saved-depth%d-shard%d", ext, depth-2, s), Args: b})
		}
	}
	return us
}

func c11StoredUsers(st *State) map[string]*c11User {
	out := map[string]*c11User{}
	for _, x := range st.Dump.ACLUsers {
		m, _ := x.(map[string]any)
		u := &c11User{Plain: map[string]bool{}, Hash: map[string]bool{}}
		u.Enabled, _ = m["Enabled"].(bool)
		u.NoPass, _ = m["NoPassword"].(bool)
		pl, _ := m["Passwords"].([]any)
		for _, p := range pl {
			pm, _ := p.(map[string]any)
			if strings.EqualFold(fmt.Sprint(pm["PasswordType"]), "plaintext") {
				u.Plain[fmt.Sprint(pm["PasswordValue"])] = true
			} else {
				u.Hash[fmt.Sprint(pm["PasswordValue"])] = true
			}
		}
		out[fmt.Sprint(m["Username"])] = u
	}
	return out
}

func userString(u *c11User) string {
	return fmt.Sprintf("{enabled=%v nopass=%v plain=%v hash=%d}", u.Enabled, u.NoPass, sortedKeys(u.Plain), len(u.Hash))
}

func usersString(m map[string]*c11User) string {
	var parts []string
	for _, k := range sortedKeys(m) {
		parts = append(parts, k+userString(m[k]))
	}
	sort.Strings(parts)
	return strings.Join(parts, " ")
}

func (c11Check) Run(u Unit, w *Worker) UnitResult {
	var a c11Args
	json.Unmarshal(u.Args, &a)
	res := UnitResult{Stats: map[string]int64{}}
	alpha := c11Alphabet()
	cfg := InstCfg{Conns: 3, RequirePass: true, Password: "adminpw", AclConfig: "/data/acl." + a.Ext, DataDir: "/data"}
	base := []Action{cmdOn(0, "AUTH", "adminpw"), cmdOn(0, "SET", "a", "x")}
	root := base
	if a.Prefix {
		// a user exists, a session is logged in as that user, the ACL file holds that state: what comes next (LOAD, rule
		// changes, commands on the old session) is explored from here
		root = append(append([]Action{}, base...), alpha[0], cmdOn(1, "AUTH", "u", "p1"), cmdOn(0, "ACL", "SAVE"))
	}
	spec := &SeqSpec{Prop: "C11", Cfg: cfg, Depth: a.Depth, Deadline: 20 * time.Minute,
		Alphabet: func(pre *State, depth int) []Action { return alpha }}
	spec.Check = func(path []Action, pre *State, act Action, out StepOut, post *State) []Finding {
		var fs []Finding
		ref := newC11Ref()
		for _, p := range path[len(base):] {
			ref.step(p)
		}
		before := *ref
		before.Users = cloneUsers(ref.Users)
		isAuth, authOK := ref.step(act)
		name := act.K
		if act.K == "cmd" {
			name = strings.ToUpper(act.A[0])
			if name == "ACL" {
				name += " " + strings.ToUpper(act.A[1])
				if len(act.A) > 3 && strings.EqualFold(act.A[1], "SETUSER") {
					r := act.A[3]
					if strings.ContainsAny(r[:1], "><#!") {
						r = r[:1] + "…"
					}
					name += " " + r
				}
			}
		}
		add := func(kind, tail, detail string) {
			fs = append(fs, Finding{Prop: "C11", Kind: kind, Sig: kind + "|" + name + "|" + tail,
				Detail: fmt.Sprintf("[acl.%s] after [%s]: %s -> %s: %s", a.Ext, pathString(path[len(base):]), act, firstN(out.Brief(), 120), detail)})
		}
		if out.Panic != "" {
			add("panic", panicSite(out.Panic), firstLine(out.Panic))
			return fs
		}
		if post == nil {
			return fs
		}
		res.Stats["conformance_checks"]++
		stored := c11StoredUsers(post)
		// user table conformance (credentials and enabled flag) after administrator actions and restarts
		if (act.K == "cmd" && act.C == 0 && before.AdminOK) || act.K == "restart" {
			want, got := usersString(ref.Users), usersString(stored)
			if want != got {
				shape := "table"
				switch {
				case len(ref.Users) != len(stored):
					shape = "user-set"
				}
				add("user-table", shape, fmt.Sprintf("stored users %s, reference %s", got, want))
			}
		}
		ci := act.C
		if isAuth && !before.Closed[ci] {
			ok := !out.V.IsErr() && !out.Empty
			switch {
			case authOK && !ok:
				add("auth-refused", "", "the credentials are valid for the stored user")
			case !authOK && ok:
				why := "wrong-password"
				user := "default"
				if len(act.A) >= 3 && name == "AUTH" {
					user = act.A[1]
				} else if name == "HELLO" {
					user = act.A[3]
				}
				if uu, ex := before.Users[user]; !ex {
					why = "no-such-user"
				} else if !uu.Enabled {
					why = "disabled-user"
				}
				add("auth-accepted", why, "the credentials do not match the stored user")
			}
			// identity after the attempt
			idn := post.Dump.ACLConns[fmt.Sprintf("c%d", ci)]
			wantUser := ref.Identity[ci]
			if wantUser == "" {
				wantUser = "default"
			}
			want := fmt.Sprintf("%v|%s|", ref.Authed[ci], wantUser)
			if !strings.HasPrefix(idn, want) {
				k := "identity-after-success"
				if !authOK {
					k = "identity-after-failure"
				}
				add(k, "", fmt.Sprintf("connection identity is %q, reference says authenticated=%v as %s", idn, ref.Authed[ci], wantUser))
			}
		}
		if act.K == "cmd" && act.C >= 1 && !isAuth && !before.Closed[ci] {
			wantUser := before.Identity[ci]
			if wantUser == "" {
				wantUser = "default"
			}
			uu, exists := before.Users[wantUser]
			mayAct := before.Authed[ci] && exists && uu.Enabled
			switch name {
			case "ACL WHOAMI":
				if mayAct && (out.V.IsErr() || out.V.Text() != wantUser) {
					add("whoami", "", "expected "+wantUser)
				}
			case "GET":
				executed := !out.Empty && !out.V.IsErr()
				if !mayAct && executed {
					why := "unauthenticated"
					if before.Authed[ci] && !exists {
						why = "deleted-user"
					} else if before.Authed[ci] && !uu.Enabled {
						why = "disabled-user"
					}
					add("acted-without-right", why, "the connection's user may not act any more")
				}
				if mayAct && !executed && !out.Empty {
					add("refused-valid-user", "", "the connection is authenticated as an enabled user with full rules")
				}
			}
		}
		if act.K == "cmd" && act.C >= 1 && before.Closed[ci] && !out.Empty && !out.V.IsErr() && name == "GET" {
			add("acted-without-right", "terminated-connection", "the connection's user was deleted (connection should be terminated)")
		}
		if name == "ACL DELUSER" && before.AdminOK {
			if _, ok := stored["default"]; !ok {
				add("default-deleted", "", "the default user is gone")
			}
		}
		return fs
	}
	runSeq(spec, root, func(i int) bool { return i%a.Shards == a.Shard }, w, &res)
	res.Samples = append(res.Samples, map[string]any{"file": "acl." + a.Ext, "depth": a.Depth, "alphabet": len(alpha)})
	return res
}
