package main

import (
	"encoding/json"
	"fmt"
	"time"

	"github.com/echovault/sugardb/verifrt"
)

// C19 — the reported memory figure is a function of the current dataset.
//
// SEQ differential check: for every transition σ --cmd--> σ′ the change of the
// reported figure must equal the change of the figure a FRESH server reports
// after being loaded with exactly the dataset of σ resp. σ′ (one setValues per
// key, the implementation's own size function): history independence, checked
// per step so that a drift is attributed to the command that introduces it.
// Additionally the figure of an empty dataset must be 0.

type c19Check struct{}

func init() { register("C19", c19Check{}) }

func (c19Check) Describe() CheckInfo {
	return CheckInfo{
		Level: "model_checking",
		Rule: "explicit-state BFS over the real dispatcher with a memory-relevant alphabet (create/overwrite/grow/shrink/delete/rename/expire/flush for every value kind, 2 databases, clock advance); " +
			"per transition: delta(reported MemoryUsed) == delta(MemoryUsed of a fresh instance loaded with the pre/post dataset); empty dataset => 0. " +
			"A transition is non-trivial if it is distinct by (pre-state hash, action); states are distinct concrete dumps.",
		Assumptions: []string{"the size function itself is the implementation's own (only history independence is demanded)",
			"alphabet and depth bound per tier; overlay instrumentation preserves single-client behaviour"},
	}
}

func c19Alphabet() []Action {
	a := []Action{
		cmd("SET", "k1", "v"), cmd("SET", "k1", "a-longer-value"), cmd("SET", "k1", "10"), cmd("SET", "k1", "v", "EX", "100"), cmd("SET", "k2", "v"),
		cmd("MSET", "k1", "v", "k2", "ww"), cmd("APPEND", "k1", "xx"), cmd("INCR", "k1"), cmd("INCRBYFLOAT", "k1", "1.5"), cmd("SETRANGE", "k1", "1", "zz"),
		cmd("DEL", "k1"), cmd("DEL", "k1", "k2"), cmd("DEL", "k1", "k2", "k1"), cmd("GETDEL", "k1"), cmd("RENAME", "k1", "k2"), cmd("RENAME", "k2", "newkey"),
		cmd("EXPIRE", "k1", "100"), cmd("PERSIST", "k1"), cmd("PEXPIRE", "k1", "5"), cmd("GET", "k1"), cmd("GETEX", "k1", "EX", "100"),
		cmd("LPUSH", "l", "e"), cmd("RPUSH", "l", "e", "ff"), cmd("LPOP", "l"), cmd("RPOP", "l", "2"), cmd("LTRIM", "l", "0", "0"), cmd("LSET", "l", "0", "zzz"), cmd("LREM", "l", "0", "e"), cmd("LMOVE", "l", "l2", "LEFT", "RIGHT"),
		cmd("HSET", "h", "f1", "v"), cmd("HSET", "h", "f1", "longer", "f2", "2"), cmd("HSETNX", "h", "f3", "v"), cmd("HDEL", "h", "f1"), cmd("HINCRBY", "h", "f2", "1"),
		cmd("SADD", "t", "a"), cmd("SADD", "t", "b", "c"), cmd("SREM", "t", "a"), cmd("SPOP", "t"), cmd("SMOVE", "t", "t2", "b"), cmd("SUNIONSTORE", "dst", "t", "t2"), cmd("SINTERSTORE", "t", "t", "t2"),
		cmd("ZADD", "z", "1", "a"), cmd("ZADD", "z", "2", "b", "3", "c"), cmd("ZREM", "z", "a"), cmd("ZPOPMIN", "z"), cmd("ZINCRBY", "z", "1", "a"), cmd("ZUNIONSTORE", "dst", "z"), cmd("ZREMRANGEBYRANK", "z", "0", "0"),
		cmd("FLUSHDB"), cmd("FLUSHALL"), cmd("SELECT", "1"), cmd("SELECT", "0"), cmd("TYPE", "l"), cmd("LLEN", "k1"),
		adv(10), adv(200000),
	}
	return a
}

type c19Args struct {
	Shard, Shards, Depth int
	Sched                bool
}

func (c19Check) Units(tier string, seed int64) []Unit {
	depth := 4
	shards := 57
	if tier == "thorough" {
		depth = 5
	}
	var us []Unit
	{
		b, _ := json.Marshal(c19Args{Sched: true})
		us = append(us, Unit{Name: "sched-concurrent-accounting", Args: b})
	}
	for sh := 0; sh < shards; sh++ {
		b, _ := json.Marshal(c19Args{Shard: sh, Shards: shards, Depth: depth})
		us = append(us, Unit{Name: fmt.Sprintf("depth%d-first%d", depth, sh), Args: b})
	}
	return us
}

// freshFigure loads the dataset of w into a fresh instance and returns its memory figure.
func freshFigure(w *World) (int64, error) {
	fresh, err := newInstance(InstCfg{Conns: -1})
	if err != nil {
		return 0, err
	}
	if err := w.in.db.VerifCopyDatasetTo(fresh.db); err != nil {
		return 0, err
	}
	verifrt.Quiesce()
	return fresh.db.VerifMemUsed(), nil
}

func (c19Check) Run(u Unit, w *Worker) UnitResult {
	var a c19Args
	json.Unmarshal(u.Args, &a)
	res := UnitResult{Stats: map[string]int64{}}
	if a.Sched {
		// the figure must not depend on the interleaving either: concurrent writers on DISTINCT new keys (sequentially exact today)
		bound := 2
		if u.Tier == "thorough" {
			bound = 3
		}
		for _, sc := range []*SchedScenario{
			{Name: "figure under interleaving: SET k1 v || SET k2 ww", Threads: [][]Action{{cmd("SET", "k1", "v")}, {cmd("SET", "k2", "ww")}}, Bound: bound, MaxExec: 60000, TrackMem: true},
			{Name: "figure under interleaving: SET k1 v || DEL k3", Setup: []Action{cmd("SET", "k3", "x")}, Threads: [][]Action{{cmd("SET", "k1", "v")}, {cmd("DEL", "k3")}}, Bound: bound, MaxExec: 60000, TrackMem: true},
			{Name: "figure under interleaving: MSET k1 v k2 v || RPUSH l a", Threads: [][]Action{{cmd("MSET", "k1", "v", "k2", "v")}, {cmd("RPUSH", "l", "a")}}, Bound: bound, MaxExec: 60000, TrackMem: true},
			{Name: "figure under interleaving: SET k1 v || SET k2 v || SET k3 v", Threads: [][]Action{{cmd("SET", "k1", "v")}, {cmd("SET", "k2", "v")}, {cmd("SET", "k3", "v")}}, Bound: bound - 1, MaxExec: 60000, TrackMem: true},
		} {
			if w.Case(sc.Name) {
				judgeScenario("C19", sc, &res)
			}
		}
		return res
	}
	alpha := c19Alphabet()
	// fresh figure of a state, cached by state key
	figs := map[string]int64{}
	var curWorld **World
	_ = curWorld
	spec := &SeqSpec{
		Prop: "C19", Cfg: InstCfg{}, Depth: a.Depth, Deadline: 15 * time.Minute,
		Alphabet: func(pre *State, depth int) []Action { return alpha },
	}
	spec.CheckW = func(wld *World, path []Action, pre *State, act Action, out StepOut, post *State) []Finding {
		if post == nil || out.Panic != "" {
			return nil
		}
		// figure of the pre-state: computed when first seen (the world is then in that state only before the action,
		// so it is derived from the post-state of the transition that produced it, or from the root)
		fpost, ok := figs[post.Key]
		if !ok {
			f, err := freshFigure(wld)
			if err != nil {
				res.Notes = append(res.Notes, "fresh load failed: "+err.Error())
				return nil
			}
			figs[post.Key], fpost = f, f
			res.Stats["fresh_loads"]++
		}
		fpre, ok := figs[pre.Key]
		if !ok {
			// root state (empty dataset) or a state first reached in another unit: rebuild it
			pw, _, err := buildWorld(spec.Cfg, path)
			if err != nil {
				return nil
			}
			f, err := freshFigure(pw)
			pw.Close()
			if err != nil {
				return nil
			}
			figs[pre.Key], fpre = f, f
			res.Stats["fresh_loads"]++
		}
		var fs []Finding
		dReal := post.Dump.MemUsed - pre.Dump.MemUsed
		dFresh := fpost - fpre
		res.Stats["deltas_compared"]++
		if dReal != dFresh {
			db := connDB(pre, act.C)
			abs := act.String()
			if act.K == "cmd" {
				abs = abstractCmd(pre, db, act.A)
			}
			dir := "over-count"
			if dReal < dFresh {
				dir = "under-count"
			}
			fs = append(fs, Finding{Prop: "C19", Kind: "mem-delta", Sig: "mem-delta|" + abs + "|" + dir,
				Detail: fmt.Sprintf("%s changed the reported figure by %+d but the figure of a fresh server holding the dataset changes by %+d (reported %d -> %d, fresh %d -> %d; dataset after: %s)",
					act, dReal, dFresh, pre.Dump.MemUsed, post.Dump.MemUsed, fpre, fpost, firstN(post.Alpha.String(), 300))})
		}
		empty := true
		for _, m := range post.Alpha {
			if len(m) > 0 {
				empty = false
			}
		}
		if empty && fpost != 0 {
			fs = append(fs, Finding{Prop: "C19", Kind: "engine", Sig: "fresh-nonzero-empty", Detail: "fresh instance with empty dataset reports non-zero"})
		}
		return fs
	}
	runSeq(spec, nil, func(i int) bool { return i%a.Shards == a.Shard }, w, &res)
	if a.Shard < len(alpha) {
		res.Samples = append(res.Samples, map[string]any{"first_action": alpha[a.Shard].String(), "alphabet_size": len(alpha), "depth": a.Depth})
	}
	return res
}
