package main

import (
	"fmt"
	"math"
	"regexp"
	"strconv"
	"strings"
)

// C01: key/value (generic + string) commands against a sequential reference map key -> (text, deadline).
//
// Written from the property statement, docs/docs/commands/generic/*.mdx and docs/docs/commands/string/*.mdx, and Redis
// conventions where both are silent (APPEND and INCRBYFLOAT have no page at all).  Scalars are modelled by their text:
// whatever a client wrote must be read back byte for byte; the int/float/string storage class is invisible here
// (normText erases it) except for TYPE, whose page lists "integer" and "float" next to "string".

func init() {
	register("C01", familyCheck{&familySpec{Prop: "C01",
		Names: []string{"SET", "MSET", "GET", "MGET", "DEL", "INCR", "DECR", "INCRBY", "DECRBY", "INCRBYFLOAT", "APPEND",
			"SETRANGE", "GETRANGE", "SUBSTR", "STRLEN", "RENAME", "GETDEL", "GETEX", "TYPE", "FLUSHDB"},
		Ref: refString,
		// plain decimal texts whose shortest float rendering uses an exponent: what was written must be read back byte for byte
		ExtraCmd: func() []Action {
			return []Action{cmd("SET", "s", "0.00001"), cmd("SET", "x", "1234567.5"), cmd("SET", "vs", "-98765432.125"), cmd("SET", "n", "100000000000000000000"),
				cmd("MSET", "s", "0.000025", "x", "1234567.5"), cmd("APPEND", "x", "0.00001"), cmd("SET", "s", "1e5"), cmd("SET", "s", "12345678901234567890.5")}
		},
		Deep: []Action{cmd("GET", "s"), cmd("SET", "s", "w"), cmd("SET", "s", "5", "EX", "100"), cmd("APPEND", "s", "1"), cmd("INCR", "s"), cmd("INCRBYFLOAT", "s", "0.5"), cmd("GETDEL", "s"), cmd("RENAME", "s", "n"), cmd("RENAME", "n", "s"), cmd("GETEX", "s", "PERSIST"), cmd("SETRANGE", "s", "2", "zz"), cmd("MSET", "s", "1", "n", "2"), cmd("DEL", "s", "n"), cmd("STRLEN", "s"), cmd("TYPE", "s")},
		Title: "refString (a Go map key -> byte string + deadline: SET with NX/XX/GET/EX/PX/EXAT/PXAT, plain SET and MSET clear the deadline, " +
			"int64 and float counters starting from 0 that keep the deadline, APPEND/SETRANGE with zero padding, GETRANGE/SUBSTR with negative indices clamped, " +
			"RENAME moving value and deadline, GETDEL, GETEX setting/clearing the deadline, TYPE, DEL, FLUSHDB; wrong type or invalid arguments = error and no change)"}})
}

func sErr(why string) *refExp {
	return &refExp{reply: []func(StepOut) bool{rErr()}, desc: "an error (" + why + ") and an unchanged dataset"}
}

// sErrOr: invalid arguments on a missing key - the order of validation and lookup is unspecified.
func sErrOr(why string, missDesc string, miss ...func(StepOut) bool) *refExp {
	return &refExp{reply: append([]func(StepOut) bool{rErr()}, miss...), desc: "an error (" + why + ") or " + missDesc + ", and an unchanged dataset"}
}

func sScalar(v AVal) bool { return v.Kind == "string" || v.Kind == "int" || v.Kind == "float" }

// sRead: the reply carries exactly the text s (simple or bulk string; an integer or double reply whose digits are s).
func sRead(s string) func(StepOut) bool {
	return func(o StepOut) bool {
		switch o.V.K {
		case '+', '$':
			return !o.V.Nul && o.V.S == s
		case ':':
			return strconv.FormatInt(o.V.I, 10) == s
		case ',':
			return o.V.S == s
		}
		return false
	}
}

// sCount: an integer result, as an integer reply or as its decimal text.
func sCount(n int64) []func(StepOut) bool {
	return []func(StepOut) bool{rInt(n), rStr(strconv.FormatInt(n, 10))}
}

func sStrCI(s string) func(StepOut) bool {
	return func(o StepOut) bool { return (o.V.K == '+' || o.V.K == '$') && !o.V.Nul && strings.EqualFold(o.V.S, s) }
}

var sPlainInt = regexp.MustCompile(`^(0|-?[1-9][0-9]*)$`)
var sPlainFloat = regexp.MustCompile(`^-?(0|[1-9][0-9]*)(\.[0-9]+)?$`)

// sInt: 1 = canonical decimal int64, 0 = parseable but not canonical ("007", "+7": representable, yet Redis rejects), -1 = no.
func sInt(s string) (int64, int) {
	n, err := strconv.ParseInt(s, 10, 64)
	if err != nil {
		return 0, -1
	}
	if sPlainInt.MatchString(s) {
		return n, 1
	}
	return n, 0
}

func sFloat(s string) (float64, int) {
	if strings.TrimSpace(s) != s || strings.ContainsAny(s, "_xXpP") {
		return 0, -1
	}
	f, err := strconv.ParseFloat(s, 64)
	if err != nil || math.IsNaN(f) {
		return 0, -1
	}
	if math.IsInf(f, 0) {
		return f, 0
	}
	if sPlainFloat.MatchString(s) {
		return f, 1
	}
	return f, 0
}

// sExpiry parses "EX n" style options: deadline in unix ms.
func sExpiry(opt, arg string, now int64) (int64, bool) {
	n, err := strconv.ParseInt(arg, 10, 64)
	if err != nil || n <= 0 {
		return 0, false
	}
	switch opt {
	case "EX":
		return now + n*1000, true
	case "PX":
		return now + n, true
	case "EXAT":
		return n * 1000, true
	case "PXAT":
		return n, true
	}
	return 0, false
}

func sFloatTexts(f float64) []string {
	out := []string{strconv.FormatFloat(f, 'f', -1, 64)}
	add := func(s string) {
		for _, x := range out {
			if x == s {
				return
			}
		}
		out = append(out, s)
	}
	add(strconv.FormatFloat(f, 'g', -1, 64))
	add(strconv.FormatFloat(f, 'e', -1, 64))
	add(strconv.FormatFloat(f, 'g', 17, 64))
	add(fmt.Sprintf("%f", f))
	if f == math.Trunc(f) && math.Abs(f) < 1e15 {
		add(strconv.FormatFloat(f, 'f', 1, 64))
	}
	return out
}

func refString(db map[string]AVal, a []string, now int64) *refExp {
	name := strings.ToUpper(a[0])
	arity := sErr("wrong number of arguments")
	one := func(f ...func(StepOut) bool) []func(StepOut) bool { return f }
	put := func(p map[string]AVal, k, s string, exp int64) map[string]AVal {
		p[k] = AVal{Kind: "string", S: s, Exp: exp}
		return p
	}
	if name == "FLUSHDB" {
		if len(a) != 1 {
			return nil // SYNC/ASYNC arguments are not documented
		}
		return &refExp{reply: one(rOK()), desc: "OK", post: map[string]AVal{}}
	}
	if len(a) < 2 {
		return arity
	}
	key := a[1]
	v, exists := aliveVal(db, key, now)
	wrong := exists && !sScalar(v)
	nilE := func(why string) *refExp { return &refExp{reply: one(rNil()), desc: "nil (" + why + ")"} }
	// typed: SET stores "considering the value's type" and the TYPE page names integer and float as types of their own; the
	// STRLEN/GETRANGE/SETRANGE pages speak of "the string value".  A string-only command applied to a value the server holds
	// as a number may therefore be refused as a wrong type (error, nothing changed) - or work on its text as in Redis.
	typed := func(e *refExp) *refExp {
		if exists && (v.Kind == "int" || v.Kind == "float") {
			e.reply = append(e.reply, rErr())
			e.desc += " (or an error and no change: the value is held as " + v.Kind + ", not string)"
			if e.post != nil {
				e.postAlt = append(e.postAlt, db)
			}
		}
		return e
	}

	switch name {
	case "SET":
		if len(a) < 3 {
			return arity
		}
		var nx, xx, get, hasExp bool
		var exp int64
		bad := ""
		for i := 3; i < len(a) && bad == ""; i++ {
			switch o := strings.ToUpper(a[i]); o {
			case "NX":
				nx = true
			case "XX":
				xx = true
			case "GET":
				get = true
			case "EX", "PX", "EXAT", "PXAT":
				if hasExp {
					bad = "more than one expiry option"
				} else if i+1 >= len(a) {
					bad = o + " without a value"
				} else if e, ok := sExpiry(o, a[i+1], now); !ok {
					bad = o + " value is not a positive integer"
				} else {
					hasExp, exp = true, e
					i++
				}
			case "KEEPTTL":
				return nil // not documented by SugarDB
			default:
				bad = "unknown option " + a[i]
			}
		}
		if bad == "" && nx && xx {
			bad = "NX and XX together"
		}
		condFails := (nx && exists) || (xx && !exists)
		if bad != "" {
			if condFails && !(nx && xx) {
				return sErrOr(bad, "nil (condition not met)", rNil())
			}
			return sErr(bad)
		}
		if hasExp && exp <= now {
			return nil // deadline already in the past: delete-or-store is not specified
		}
		if get && wrong {
			return sErr("SET ... GET on a key that does not hold a string")
		}
		old := one(rNil())
		oldDesc := "nil (no previous value)"
		if exists {
			old, oldDesc = one(sRead(v.S)), fmt.Sprintf("the previous value %q", v.S)
		}
		if condFails {
			if get {
				return &refExp{reply: append(old, rErr()), desc: oldDesc + " (or an error): condition not met, nothing written"}
			}
			return &refExp{reply: one(rNil(), rErr()), desc: "nil (or an error): condition not met, nothing written"}
		}
		post := put(cloneDB(db), key, a[2], exp)
		if get {
			return &refExp{reply: old, desc: oldDesc, post: post}
		}
		return &refExp{reply: one(rOK()), desc: "OK", post: post}

	case "MSET":
		if len(a) < 3 || len(a)%2 != 1 {
			return sErr("MSET needs key/value pairs")
		}
		post := cloneDB(db)
		for i := 1; i+1 < len(a); i += 2 {
			put(post, a[i], a[i+1], 0)
		}
		return &refExp{reply: one(rOK()), desc: "OK", post: post}

	case "GET":
		if len(a) != 2 {
			return arity
		}
		if wrong {
			return sErr("not a string")
		}
		if !exists {
			return nilE("no such key")
		}
		return &refExp{reply: one(sRead(v.S)), desc: fmt.Sprintf("the value %q", v.S)}

	case "MGET":
		var want []string
		anyWrong := false
		for _, k := range a[1:] {
			x, ok := aliveVal(db, k, now)
			switch {
			case !ok:
				want = append(want, "\x00nil")
			case !sScalar(x):
				anyWrong = true
				want = append(want, "\x00nil")
			default:
				want = append(want, x.S)
			}
		}
		e := &refExp{reply: one(rArr(want, false)), desc: fmt.Sprintf("the array %q (\\x00nil = nil)", want)}
		if anyWrong {
			e.reply = append(e.reply, rErr())
			e.desc += " or an error (a key holds a non-string)"
		}
		return e

	case "DEL":
		post := cloneDB(db)
		lo, hi := 0, 0
		for _, k := range a[1:] {
			if _, ok := aliveVal(db, k, now); ok {
				hi++
				if _, still := post[k]; still {
					lo++
				}
			}
			delete(post, k)
		}
		var rep []func(StepOut) bool
		_ = hi
		rep = append(rep, rInt(int64(lo))) // the number of keys removed: a key named twice is removed once
		return &refExp{reply: rep, desc: fmt.Sprintf("the number of keys removed, %d", lo), post: post}

	case "INCR", "DECR", "INCRBY", "DECRBY":
		var delta int64 = 1
		if name == "INCR" || name == "DECR" {
			if len(a) != 2 {
				return arity
			}
		} else {
			if len(a) != 3 {
				return arity
			}
			d, q := sInt(a[2])
			if q < 0 {
				return sErr("the amount is not an integer")
			}
			if q == 0 {
				return nil
			}
			delta = d
		}
		if name[0] == 'D' {
			if delta == math.MinInt64 {
				return sErr("overflow")
			}
			delta = -delta
		}
		if wrong {
			return sErr("not a string")
		}
		var cur int64
		q := 1
		if exists {
			cur, q = sInt(v.S)
		}
		if q < 0 {
			return sErr(fmt.Sprintf("the value %q is not an integer", v.S))
		}
		if (delta > 0 && cur > math.MaxInt64-delta) || (delta < 0 && cur < math.MinInt64-delta) {
			return sErr("64 bit signed overflow")
		}
		res := cur + delta
		e := &refExp{reply: sCount(res), desc: fmt.Sprintf("the integer %d", res), post: put(cloneDB(db), key, strconv.FormatInt(res, 10), v.Exp)}
		if q == 0 { // "007": representable as an integer, but Redis refuses it
			e.reply = append(e.reply, rErr())
			e.desc += fmt.Sprintf(" (or an error and no change: %q is not in canonical form)", v.S)
			e.postAlt = append(e.postAlt, db)
		}
		return e

	case "INCRBYFLOAT":
		if len(a) != 3 {
			return arity
		}
		d, dq := sFloat(a[2])
		if dq < 0 || math.IsInf(d, 0) {
			return sErr("the amount is not a finite float")
		}
		if wrong {
			return sErr("not a string")
		}
		cur, q := 0.0, 1
		if exists {
			cur, q = sFloat(v.S)
		}
		if q < 0 {
			return sErr(fmt.Sprintf("the value %q is not a float", v.S))
		}
		res := cur + d
		if math.IsInf(res, 0) || math.IsNaN(res) {
			return sErr("the result is not finite")
		}
		texts := sFloatTexts(res)
		e := &refExp{reply: one(rNum(res)), desc: fmt.Sprintf("the number %s", texts[0]), post: put(cloneDB(db), key, texts[0], v.Exp)}
		for _, t := range texts[1:] {
			e.postAlt = append(e.postAlt, put(cloneDB(db), key, t, v.Exp))
		}
		if q == 0 || dq == 0 {
			e.reply = append(e.reply, rErr())
			e.desc += " (or an error and no change: operand not in plain decimal form)"
			e.postAlt = append(e.postAlt, db)
		}
		return e

	case "APPEND":
		if len(a) != 3 {
			return arity
		}
		if wrong {
			return sErr("not a string")
		}
		s := v.S + a[2]
		return typed(&refExp{reply: append(sCount(int64(len(s))), rOK()), desc: fmt.Sprintf("the new length %d", len(s)), post: put(cloneDB(db), key, s, v.Exp)})

	case "SETRANGE":
		if len(a) != 4 {
			return arity
		}
		off, ok := atoi(a[2])
		if !ok {
			return sErr("the offset is not an integer")
		}
		if wrong {
			return sErr("not a string")
		}
		if off < 0 {
			// Redis refuses a negative offset; the repository's tests define it as "prepend".  Both are accepted.
			s := a[3] + v.S
			e := &refExp{reply: append(sCount(int64(len(s))), rErr()), desc: fmt.Sprintf("an error and no change, or the value %q", s), post: put(cloneDB(db), key, s, v.Exp)}
			e.postAlt = append(e.postAlt, db)
			return typed(e)
		}
		pad := func(s string, n int) string {
			if len(s) < n {
				s += strings.Repeat("\x00", n-len(s))
			}
			return s
		}
		if a[3] == "" {
			// nothing to write: Redis replies the current length and creates/pads nothing; padding up to the offset is tolerated
			s2 := pad(v.S, off)
			e := &refExp{reply: sCount(int64(len(v.S))), desc: fmt.Sprintf("the length %d", len(v.S))}
			if s2 != v.S || !exists {
				e.reply = append(e.reply, sCount(int64(len(s2)))...)
				e.postAlt = append(e.postAlt, put(cloneDB(db), key, s2, v.Exp))
			}
			if !exists {
				// "creates the key if it doesn't exist": an empty string value is accepted as well
				e.postAlt = append(e.postAlt, put(cloneDB(db), key, "", 0))
			}
			return typed(e)
		}
		s := pad(v.S, off+len(a[3]))
		s = s[:off] + a[3] + s[off+len(a[3]):]
		e := &refExp{reply: sCount(int64(len(s))), desc: fmt.Sprintf("the new length %d", len(s)), post: put(cloneDB(db), key, s, v.Exp)}
		if off > len(v.S) {
			// past the end: zero padding (Redis) or plain appending (what the repository's tests define)
			s2 := v.S + a[3]
			e.reply = append(e.reply, sCount(int64(len(s2)))...)
			e.postAlt = append(e.postAlt, put(cloneDB(db), key, s2, v.Exp))
			e.desc += fmt.Sprintf(" (or %d, appending without padding)", len(s2))
		}
		return typed(e)

	case "GETRANGE", "SUBSTR":
		if len(a) != 4 {
			return arity
		}
		st, ok1 := atoi(a[2])
		en, ok2 := atoi(a[3])
		if !ok1 || !ok2 {
			if !exists {
				return sErrOr("indices are not integers", "the empty string", rStr(""), rNil())
			}
			return sErr("indices are not integers")
		}
		if wrong {
			return sErr("not a string")
		}
		if !exists {
			// the page does not say how a missing key reads: "" (Redis), nil, or a "no such key" error
			return &refExp{reply: one(rStr(""), rNil(), rErr()), desc: "the empty string (or nil, or an error): no such key"}
		}
		n := len(v.S)
		st, en = normIdxS(st, n), normIdxS(en, n)
		if st > en || st >= n {
			// start after end, or beyond the string: the repository's tests define a reversed/clamped reading - not judged
			return nil
		}
		// window intersection; Redis additionally lifts an end that is still negative to 0
		alts := map[string]bool{}
		for _, lift := range []bool{false, true} {
			s, e := st, en
			if s < 0 {
				s = 0
			}
			if e < 0 && lift {
				e = 0
			}
			if e >= n {
				e = n - 1
			}
			if n == 0 || e < 0 || s > e {
				alts[""] = true
			} else {
				alts[v.S[s:e+1]] = true
			}
		}
		e := &refExp{}
		for s := range alts {
			e.reply = append(e.reply, rStr(s))
			if e.desc != "" {
				e.desc += " or "
			}
			e.desc += fmt.Sprintf("the substring %q", s)
		}
		return typed(e)

	case "STRLEN":
		if len(a) != 2 {
			return arity
		}
		if wrong {
			return sErr("not a string")
		}
		return typed(&refExp{reply: sCount(int64(len(v.S))), desc: fmt.Sprintf("the length %d", len(v.S))})

	case "RENAME":
		if len(a) != 3 {
			return arity
		}
		if !exists {
			return sErr("no such key")
		}
		if a[2] == key {
			return &refExp{reply: one(rOK(), rErr()), desc: "OK (or an error) and an unchanged dataset"}
		}
		post := cloneDB(db)
		post[a[2]] = post[key]
		delete(post, key)
		return &refExp{reply: one(rOK()), desc: "OK", post: post}

	case "GETDEL":
		if len(a) != 2 {
			return arity
		}
		if wrong {
			return sErr("not a string")
		}
		if !exists {
			return nilE("no such key")
		}
		post := cloneDB(db)
		delete(post, key)
		return &refExp{reply: one(sRead(v.S)), desc: fmt.Sprintf("the value %q", v.S), post: post}

	case "GETEX":
		exp, bad := v.Exp, ""
		switch {
		case len(a) == 2:
		case len(a) == 3 && strings.EqualFold(a[2], "PERSIST"):
			exp = 0
		case len(a) == 4:
			e, ok := sExpiry(strings.ToUpper(a[2]), a[3], now)
			if !ok {
				bad = "unknown option or its value is not a positive integer"
			}
			exp = e
		default:
			bad = "unknown option or wrong number of arguments"
		}
		if bad != "" {
			if !exists {
				return sErrOr(bad, "nil (no such key)", rNil())
			}
			return sErr(bad)
		}
		if wrong {
			return sErr("not a string")
		}
		if !exists {
			return nilE("no such key")
		}
		if exp != 0 && exp <= now {
			return nil
		}
		return &refExp{reply: one(sRead(v.S)), desc: fmt.Sprintf("the value %q", v.S), post: put(cloneDB(db), key, v.S, exp)}

	case "TYPE":
		if len(a) != 2 {
			return arity
		}
		if !exists {
			// the page does not say how a missing key is reported: "none" (Redis), nil, or a "no such key" error
			return &refExp{reply: one(sStrCI("none"), rNil(), rErr()), desc: "none (or nil, or an error)"}
		}
		var names []string
		switch v.Kind {
		case "string", "int", "float":
			names = []string{"string"}
			// the page lists "integer" and "float" as separate type names for numeric values
			if _, q := sInt(v.S); q >= 0 {
				names = append(names, "integer", "int")
			}
			if _, q := sFloat(v.S); q >= 0 {
				names = append(names, "float", "double")
			}
		case "list":
			names = []string{"list"}
		case "hash":
			names = []string{"hash"}
		case "set":
			names = []string{"set"}
		case "zset":
			names = []string{"zset", "sortedset", "sorted_set", "sorted set", "sorted-set"}
		default:
			return nil
		}
		e := &refExp{desc: "the type name " + strings.Join(names, " / ")}
		for _, n := range names {
			e.reply = append(e.reply, sStrCI(n))
		}
		return e
	}
	return nil
}

func normIdxS(i, n int) int {
	if i < 0 {
		return n + i
	}
	return i
}
