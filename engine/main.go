// vengine: the verification harness.  Built with the instrumentation overlay
// as a virtual main package inside the sugardb module (see bin/vcheck).
//
//	vengine check <Cnn> [--tier quick|thorough]   parent: shards units over worker processes
//	vengine worker <Cnn>                          worker: executes units read from stdin
//	vengine replay <file>                         re-executes a recorded violation
//	vengine selftest                              runtime/scheduler/vos self checks
package main

import (
	"bufio"
	"encoding/json"
	"fmt"
	"io"
	"log"
	"os"
	"os/exec"
	"runtime"
	"runtime/debug"
	"runtime/pprof"
	"sort"
	"strconv"
	"strings"
	"sync"
	"time"
)

type Unit struct {
	ID      int
	Prop    string
	Name    string
	Args    json.RawMessage `json:",omitempty"`
	Tier    string
	Seed    int64
	Verbose bool     `json:",omitempty"`
	Skip    []string `json:",omitempty"` // case ids to skip (they killed or hung a worker)
}

type Finding struct {
	Prop   string
	Sig    string // signature used to match known findings
	Kind   string // reply | state | panic | hang | died | ...
	Detail string
	Replay any `json:",omitempty"`
	Cost   int // smaller = simpler witness (kept per signature)
}

type UnitResult struct {
	Unit      int
	Findings  []Finding          `json:",omitempty"`
	Stats     map[string]int64   `json:",omitempty"`
	Samples   []any              `json:",omitempty"`
	Hashes    []string           `json:",omitempty"` // distinct state ids seen (for global distinct counts)
	Outcomes  []string           `json:",omitempty"` // distinct outcome ids
	Notes     []string           `json:",omitempty"`
	Capped    string             `json:",omitempty"` // non-empty: the unit stopped at a cap/deadline (not exhaustive)
	EngineError string           `json:",omitempty"` // harness bug (never a property verdict)
	HangCase  string             `json:",omitempty"` // worker gives up the unit at this case (hang); parent restarts with Skip
	Extra     map[string]any     `json:",omitempty"`
}

// Check is one property's checker.
type Check interface {
	// Units lists the work of a tier.
	Units(tier string, seed int64) []Unit
	// Run executes one unit inside a worker.
	Run(u Unit, w *Worker) UnitResult
	// Describe fills the static parts of the evidence.
	Describe() CheckInfo
}

type CheckInfo struct {
	Level       string // evidence level
	Rule        string
	Assumptions []string
}

var checks = map[string]Check{}

func register(id string, c Check) { checks[id] = c }

// Worker is the per-process context handed to Check.Run.
type Worker struct {
	out     *json.Encoder
	verbose bool
	skip    map[string]bool
	cur     string
}

// Case announces the case about to be executed; returns false if it must be skipped.
func (w *Worker) Case(id string) bool {
	if w.skip[id] {
		return false
	}
	w.cur = id
	if w.verbose && w.out != nil {
		w.out.Encode(map[string]string{"case": id})
	}
	return true
}

func main() {
	log.SetOutput(io.Discard)
	if os.Getenv("VERIF_LOGS") != "" { // development aid: let the server's own log lines through
		log.SetOutput(os.Stderr)
	}
	if len(os.Args) < 2 {
		fmt.Fprintln(os.Stderr, "usage: vengine check|worker|replay|selftest ...")
		os.Exit(2)
	}
	switch os.Args[1] {
	case "check":
		os.Exit(parentMain(os.Args[2:]))
	case "worker":
		workerMain(os.Args[2])
	case "replay":
		os.Exit(replayMain(os.Args[2:]))
	case "selftest":
		os.Exit(selftestMain(os.Args[2:]))
	default:
		fmt.Fprintln(os.Stderr, "unknown subcommand", os.Args[1])
		os.Exit(2)
	}
}

func workerMain(prop string) {
	runtime.GOMAXPROCS(2)
	debug.SetGCPercent(400)
	debug.SetMemoryLimit(3 << 30) // soft: the collector works harder instead of letting 16 workers outgrow the machine
	if pf := os.Getenv("VERIF_PROF"); pf != "" {
		f, _ := os.Create(pf)
		pprof.StartCPUProfile(f)
		defer pprof.StopCPUProfile()
	}
	if hp := os.Getenv("VERIF_HEAPPROF"); hp != "" { // development aid: periodic heap profiles of this worker
		go func() {
			for {
				time.Sleep(30 * time.Second)
				if f, err := os.Create(fmt.Sprintf("%s/heap-%d.pprof", hp, os.Getpid())); err == nil {
					pprof.WriteHeapProfile(f)
					f.Close()
				}
				if f, err := os.Create(fmt.Sprintf("%s/goroutines-%d.txt", hp, os.Getpid())); err == nil {
					pprof.Lookup("goroutine").WriteTo(f, 1)
					f.Close()
				}
			}
		}()
	}
	c, ok := checks[prop]
	if !ok {
		fmt.Fprintln(os.Stderr, "no such check", prop)
		os.Exit(2)
	}
	resPipe := os.NewFile(3, "results")
	enc := json.NewEncoder(resPipe)
	in := bufio.NewReaderSize(os.Stdin, 1<<20)
	for {
		line, err := in.ReadBytes('\n')
		if len(line) > 0 {
			var u Unit
			if e := json.Unmarshal(line, &u); e != nil {
				fmt.Fprintln(os.Stderr, "worker: bad unit:", e)
				os.Exit(2)
			}
			w := &Worker{out: enc, verbose: u.Verbose, skip: map[string]bool{}}
			for _, s := range u.Skip {
				w.skip[s] = true
			}
			var r UnitResult
			func() {
				defer func() {
					if p := recover(); p != nil {
						r = UnitResult{EngineError: fmt.Sprintf("harness panic in unit %s at case %q: %v\n%s", u.Name, w.cur, p, debug.Stack())}
					}
				}()
				r = c.Run(u, w)
			}()
			r.Unit = u.ID
			if e := enc.Encode(r); e != nil {
				os.Exit(2)
			}
			if r.HangCase != "" {
				os.Exit(3) // a goroutine may be spinning: start afresh
			}
		}
		if err != nil {
			return
		}
	}
}

// ---- parent ----

type agg struct {
	mu        sync.Mutex
	findings  map[string]Finding // by signature, simplest witness kept
	sigCount  map[string]int
	stats     map[string]int64
	samples   []any
	hashes    map[string]struct{}
	outcomes  map[string]struct{}
	notes     map[string]int
	capped    []string
	extra     map[string]any
	unitsDone int
}

func (a *agg) add(r UnitResult) {
	a.mu.Lock()
	defer a.mu.Unlock()
	for _, f := range r.Findings {
		a.sigCount[f.Sig]++
		if old, ok := a.findings[f.Sig]; !ok || f.Cost < old.Cost {
			a.findings[f.Sig] = f
		}
	}
	for k, v := range r.Stats {
		if len(k) > 4 && k[:4] == "max_" {
			if v > a.stats[k] {
				a.stats[k] = v
			}
		} else {
			a.stats[k] += v
		}
	}
	for _, s := range r.Samples {
		if len(a.samples) < 12 {
			a.samples = append(a.samples, s)
		}
	}
	for _, h := range r.Hashes {
		a.hashes[h] = struct{}{}
	}
	for _, h := range r.Outcomes {
		a.outcomes[h] = struct{}{}
	}
	for _, n := range r.Notes {
		a.notes[n]++
	}
	if r.Capped != "" {
		a.capped = append(a.capped, r.Capped)
	}
	for k, v := range r.Extra {
		a.extra[k] = v
	}
	a.unitsDone++
}

func parentMain(args []string) int {
	if len(args) < 1 {
		fmt.Fprintln(os.Stderr, "usage: vengine check <Cnn> [--tier quick|thorough]")
		return 2
	}
	prop := args[0]
	tier := os.Getenv("VERIF_TIER")
	for i := 1; i < len(args); i++ {
		if args[i] == "--tier" && i+1 < len(args) {
			tier = args[i+1]
		}
	}
	if tier == "" {
		tier = "quick"
	}
	seed := int64(1)
	if s := os.Getenv("VERIF_SEED"); s != "" {
		if v, err := strconv.ParseInt(s, 10, 64); err == nil {
			seed = v
		}
	}
	c, ok := checks[prop]
	if !ok {
		fmt.Fprintln(os.Stderr, "no such check", prop)
		return 2
	}
	start := time.Now()
	units := c.Units(tier, seed)
	for i := range units {
		units[i].ID = i
		units[i].Prop = prop
		units[i].Tier = tier
		units[i].Seed = seed
	}
	if only := os.Getenv("VERIF_ONLY_UNIT"); only != "" { // development aid: run the units whose name contains this
		var keep []Unit
		for _, u := range units {
			if strings.Contains(u.Name, only) {
				keep = append(keep, u)
			}
		}
		units = keep
	}
	a := &agg{findings: map[string]Finding{}, sigCount: map[string]int{}, stats: map[string]int64{},
		hashes: map[string]struct{}{}, outcomes: map[string]struct{}{}, notes: map[string]int{}, extra: map[string]any{}}

	nw := runtime.NumCPU()
	if v := os.Getenv("VERIF_WORKERS"); v != "" {
		if n, err := strconv.Atoi(v); err == nil && n > 0 {
			nw = n
		}
	}
	if nw > len(units) {
		nw = len(units)
	}
	queue := make(chan Unit, len(units))
	for _, u := range units {
		queue <- u
	}
	close(queue)
	var wg sync.WaitGroup
	engineErr := make(chan string, len(units)*50+100)
	for i := 0; i < nw; i++ {
		wg.Add(1)
		go func() {
			defer wg.Done()
			runWorkerLoop(prop, queue, a, engineErr)
		}()
	}
	wg.Wait()
	close(engineErr)
	var eerrs []string
	for e := range engineErr {
		eerrs = append(eerrs, e)
	}
	wall := time.Since(start).Seconds()
	return finish(prop, tier, seed, c, a, len(units), wall, eerrs)
}

// runWorkerLoop drives one worker process, restarting it when it dies.
func runWorkerLoop(prop string, queue chan Unit, a *agg, engineErr chan string) {
	var cmd *exec.Cmd
	var stdin io.WriteCloser
	var dec *json.Decoder
	startProc := func() error {
		cmd = exec.Command(os.Args[0], "worker", prop)
		cmd.Stderr = nil
		cmd.Stdout = nil
		if os.Getenv("VERIF_DEBUG") != "" {
			cmd.Stderr = os.Stderr
		}
		var err error
		stdin, err = cmd.StdinPipe()
		if err != nil {
			return err
		}
		pr, pw, err := os.Pipe()
		if err != nil {
			return err
		}
		cmd.ExtraFiles = []*os.File{pw}
		cmd.Env = append(os.Environ(), "GOMAXPROCS=2")
		if err := cmd.Start(); err != nil {
			return err
		}
		pw.Close()
		dec = json.NewDecoder(bufio.NewReaderSize(pr, 1<<20))
		return nil
	}
	stopProc := func() {
		if cmd != nil {
			stdin.Close()
			cmd.Process.Kill()
			cmd.Wait()
			cmd = nil
		}
	}
	defer stopProc()
	for u := range queue {
		deaths := 0
		for {
			if cmd == nil {
				if err := startProc(); err != nil {
					engineErr <- "cannot start worker: " + err.Error()
					return
				}
			}
			b, _ := json.Marshal(u)
			if _, err := stdin.Write(append(b, '\n')); err != nil {
				stopProc()
				deaths++
				if deaths > 3 {
					engineErr <- "worker refuses input for unit " + u.Name
					break
				}
				continue
			}
			// read messages until the unit's result
			lastCase := ""
			var res *UnitResult
			for {
				var raw map[string]json.RawMessage
				if err := dec.Decode(&raw); err != nil {
					break // worker died
				}
				if cs, ok := raw["case"]; ok {
					json.Unmarshal(cs, &lastCase)
					continue
				}
				var r UnitResult
				bb, _ := json.Marshal(raw)
				json.Unmarshal(bb, &r)
				res = &r
				break
			}
			if res != nil && res.EngineError != "" {
				engineErr <- res.EngineError
				break
			}
			if res != nil && res.HangCase == "" {
				a.add(*res)
				break
			}
			stopProc()
			deaths++
			if deaths > 40 {
				engineErr <- fmt.Sprintf("unit %s: too many worker deaths", u.Name)
				break
			}
			if res != nil && res.HangCase != "" {
				// the worker reported the hang itself (finding included); skip that case from now on
				partial := *res
				partial.HangCase = ""
				partial.Stats = nil // the unit is re-run; do not double count
				partial.Hashes, partial.Outcomes, partial.Samples = nil, nil, nil
				a.add(partial)
				a.mu.Lock()
				a.unitsDone--
				a.mu.Unlock()
				already := false
				for _, sk := range u.Skip {
					if sk == res.HangCase {
						already = true
					}
				}
				if already {
					// the check reported the same case again although it was on the skip list: it cannot be skipped
					// (the case is not announced with Worker.Case) - give the unit up instead of restarting for ever
					a.add(UnitResult{Unit: u.ID, Capped: "unit " + u.Name + " abandoned: case \"" + res.HangCase + "\" hangs and cannot be skipped"})
					break
				}
				u.Skip = append(u.Skip, res.HangCase)
				continue
			}
			if !u.Verbose {
				u.Verbose = true // re-run announcing each case so the death can be attributed
				continue
			}
			if lastCase == "" {
				engineErr <- fmt.Sprintf("unit %s: worker died before announcing a case", u.Name)
				break
			}
			a.add(UnitResult{Unit: u.ID, Findings: []Finding{{Prop: prop, Sig: "died|" + sigOfCase(lastCase), Kind: "died",
				Detail: "the process died (Go fatal error / os.Exit) while executing: " + lastCase, Replay: map[string]any{"unit": u.Name, "case": lastCase}}}})
			a.mu.Lock()
			a.unitsDone--
			a.mu.Unlock()
			u.Skip = append(u.Skip, lastCase)
		}
	}
}

// sigOfCase reduces a case id to a signature; checks may install a finer function.
var sigOfCase = func(c string) string { return c }

func sortedKeys[V any](m map[string]V) []string {
	ks := make([]string, 0, len(m))
	for k := range m {
		ks = append(ks, k)
	}
	sort.Strings(ks)
	return ks
}
