package main

import (
	"encoding/json"
	"fmt"
	"strings"
	"time"
)

// C13 — read-only commands are pure; failing commands change nothing; stored
// results never share structure with a source.
//
// SEQ invariant check, no reference model: for every transition σ --cmd--> σ′
//   (a) cmd read-only (server's own ACL category `read`, or documented read-only) ⇒ α(σ′) = α(σ) minus already-expired keys
//   (b) reply is an error                                                         ⇒ same
//   (c) in σ′ no two keys share mutable structure (pointer/map/backing-array overlap)
//   (d) every stored value is structurally sane (set length field = number of members, ...)

type c13Check struct{}

func init() { register("C13", c13Check{}) }

func (c13Check) Describe() CheckInfo {
	return CheckInfo{
		Level: "model_checking",
		Rule: "explicit-state BFS over the real command dispatcher: from seed datasets holding every value kind (plus volatile and expired-but-present keys, two databases) " +
			"every catalogue command x argument template x key/argument domain is executed; a transition is non-trivial when it is distinct by (pre-state hash, command); " +
			"states are distinct concrete dumps of the private store. Oracle: read-only or failed commands leave the abstract dataset of all databases unchanged " +
			"(expired keys may disappear); no two keys share mutable structure after any command.",
		Assumptions: []string{
			"instrumented build (overlay: virtual clock, tracked goroutines) behaves like the plain build for single-client command execution",
			"argument domains of engine/catalog.go; depth bound per tier",
			"Go map iteration order is not controlled; the oracles are order-insensitive",
		},
	}
}

type c13Args struct {
	Seed   int // index into c13Seeds
	Shard  int
	Shards int
	Depth  int
	Small  bool
}

func c13Seeds() [][]Action {
	base := universeSeed()
	withExpired := append(append([]Action{}, base...),
		cmd("SET", "ex", "old", "PX", "5"), cmd("RPUSH", "newkey", "q"), cmd("PEXPIRE", "newkey", "5"), adv(10))
	twoDB := append(append([]Action{}, base...), cmd("SELECT", "1"), cmd("SET", "s", "other"), cmd("SADD", "t", "zz"), cmd("SELECT", "0"))
	return [][]Action{base, withExpired, twoDB}
}

func (c13Check) Units(tier string, seed int64) []Unit {
	var us []Unit
	shards := 16
	mk := func(a c13Args) {
		b, _ := json.Marshal(a)
		us = append(us, Unit{Name: fmt.Sprintf("seed%d-depth%d-shard%d", a.Seed, a.Depth, a.Shard), Args: b})
	}
	for s := range c13Seeds() {
		for sh := 0; sh < shards; sh++ {
			mk(c13Args{Seed: s, Shard: sh, Shards: shards, Depth: 1})
		}
	}
	// depth 2 with the narrow domains: reads and failures from non-initial states, aliasing after store commands
	d2shards := 32
	if tier == "thorough" {
		d2shards = 128
	}
	for sh := 0; sh < d2shards; sh++ {
		mk(c13Args{Seed: 0, Shard: sh, Shards: d2shards, Depth: 2, Small: true})
	}
	if tier == "thorough" {
		for sh := 0; sh < d2shards; sh++ {
			mk(c13Args{Seed: 2, Shard: sh, Shards: d2shards, Depth: 2, Small: true})
		}
	}
	return us
}

var readCats map[string]bool // commands carrying the server's `read` category (lower-case), filled once per worker

func loadReadCats() {
	if readCats != nil {
		return
	}
	readCats = map[string]bool{}
	w, err := newWorld(InstCfg{})
	if err != nil {
		panic(err)
	}
	defer w.Close()
	o := w.Do(cmd("COMMAND", "LIST", "FILTERBY", "ACLCAT", "read"))
	for _, n := range o.V.Strs() {
		readCats[strings.ToLower(n)] = true
	}
	if len(readCats) < 10 {
		panic(fmt.Sprintf("COMMAND LIST FILTERBY ACLCAT read returned %d commands: %s", len(readCats), o.Brief()))
	}
}

func isReadCmd(name string) bool {
	if readCats[strings.ToLower(name)] {
		return true
	}
	if e := catByName[strings.ToUpper(name)]; e != nil && e.Read {
		return true
	}
	return false
}

func (c13Check) Run(u Unit, w *Worker) UnitResult {
	var a c13Args
	json.Unmarshal(u.Args, &a)
	loadReadCats()
	res := UnitResult{Stats: map[string]int64{}}
	dom := fullDomains
	if a.Small {
		dom = smallDomains
	}
	all := catalogActions(dom, nil)
	writes := catalogActions(smallDomains, func(e *CatEntry) bool { return !e.Read })
	level2 := catalogActions(tinyDomains(), func(e *CatEntry) bool { return e.Read })
	if u.Tier == "thorough" {
		level2 = catalogActions(smallDomains, nil)
	}
	spec := &SeqSpec{
		Prop:     "C13",
		Cfg:      InstCfg{},
		Depth:    a.Depth,
		Deadline: 10 * time.Minute,
		Alphabet: func(pre *State, depth int) []Action {
			if a.Depth == 1 {
				return all
			}
			if depth == 0 {
				return writes
			}
			return level2
		},
		Check: func(path []Action, pre *State, act Action, out StepOut, post *State) []Finding {
			return c13Judge(&res, pre, act, out, post)
		},
	}
	root := c13Seeds()[a.Seed]
	runSeq(spec, root, func(i int) bool { return i%a.Shards == a.Shard }, w, &res)
	if len(res.Samples) == 0 {
		res.Samples = append(res.Samples, map[string]any{"seed": pathString(root), "alphabet_size": len(all), "example": all[(a.Shard*37)%len(all)].String()})
	}
	return res
}

func c13Judge(res *UnitResult, pre *State, act Action, out StepOut, post *State) []Finding {
	var fs []Finding
	if act.K != "cmd" {
		return nil
	}
	db := connDB(pre, act.C)
	abs := abstractCmd(pre, db, act.A)
	if out.Panic != "" {
		res.Stats["panics_seen"]++
		return nil // crashes are C12's concern; nothing to compare
	}
	if post == nil {
		return nil
	}
	name := act.A[0]
	mustBePure := ""
	switch {
	case isReadCmd(name):
		mustBePure = "read-only"
		res.Stats["checked_read_only"]++
	case !out.Empty && out.PErr == "" && out.V.IsErr():
		mustBePure = "failed"
		res.Stats["checked_failed"]++
	}
	if mustBePure != "" {
		diff := alphaDiff(pre.Alpha, post.Alpha, func(d int, k string) bool {
			// removal of an already expired key is allowed
			v, ok := pre.Alpha[d][k]
			_, still := post.Alpha[d][k]
			return ok && !still && v.Exp != 0 && v.Exp < pre.NowMs
		})
		if len(diff) > 0 {
			fs = append(fs, Finding{Prop: "C13", Kind: "state", Sig: "impure|" + mustBePure + "|" + abs,
				Detail: fmt.Sprintf("%s command %s (reply %s) changed the dataset: %s", mustBePure, act, out.Brief(), strings.Join(diff, "; "))})
		}
	}
	// shared structure introduced by this command
	preShared := map[string]bool{}
	for _, s := range sharedStructure(pre) {
		preShared[s] = true
	}
	for _, s := range sharedStructure(post) {
		if !preShared[s] {
			fs = append(fs, Finding{Prop: "C13", Kind: "alias", Sig: "shared-structure|" + abs,
				Detail: fmt.Sprintf("after %s the values of %s share mutable structure (a later write to one changes the other)", act, s)})
			break
		}
	}
	for d, m := range post.Alpha {
		for k, v := range m {
			if v.Bad != "" {
				if pv, ok := pre.Alpha[d][k]; !ok || pv.Bad == "" {
					fs = append(fs, Finding{Prop: "C13", Kind: "corrupt", Sig: "corrupt-value|" + abs,
						Detail: fmt.Sprintf("after %s key db%d:%s is structurally inconsistent: %s", act, d, k, v.Bad)})
				}
			}
		}
	}
	return fs
}
