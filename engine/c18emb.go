package main

import (
	"fmt"
	"strings"
	"sync/atomic"

	"github.com/echovault/sugardb/sugardb"
)

// C18, embedded-subscriber facet: the subscriber is the embedded API (Subscribe / PSubscribe / Unsubscribe /
// PUnsubscribe on one tag), whose pipe is verifrt.NetPipe under instrumentation; a wire connection publishes and
// subscribes next to it and a third one asks PUBSUB NUMSUB / NUMPAT after every step.  Every sequence of the nine
// operations up to the depth is run on a fresh instance with a fresh tag (the tag -> pipe map is process-wide);
// reference = the same subscription table as the wire facet (the embedded subscriber is its connection 1).

var c18EmbTag atomic.Int64

type c18EmbOp struct {
	name string
	tab  Action // effect on the subscription table (connection 1 = embedded subscriber, 0 = wire connection)
	api  func(db *sugardb.SugarDB, tag string)
}

func c18EmbOps() []c18EmbOp {
	return []c18EmbOp{
		{"E.Subscribe(c1)", cmdOn(1, "SUBSCRIBE", "c1"), func(db *sugardb.SugarDB, t string) { db.Subscribe(t, "c1") }},
		{"E.Subscribe(c1,c2)", cmdOn(1, "SUBSCRIBE", "c1", "c2"), func(db *sugardb.SugarDB, t string) { db.Subscribe(t, "c1", "c2") }},
		{"E.PSubscribe(c*)", cmdOn(1, "PSUBSCRIBE", "c*"), func(db *sugardb.SugarDB, t string) { db.PSubscribe(t, "c*") }},
		{"E.Unsubscribe()", cmdOn(1, "UNSUBSCRIBE"), func(db *sugardb.SugarDB, t string) { db.Unsubscribe(t) }},
		{"E.Unsubscribe(c1)", cmdOn(1, "UNSUBSCRIBE", "c1"), func(db *sugardb.SugarDB, t string) { db.Unsubscribe(t, "c1") }},
		{"E.PUnsubscribe()", cmdOn(1, "PUNSUBSCRIBE"), func(db *sugardb.SugarDB, t string) { db.PUnsubscribe(t) }},
		{"E.PUnsubscribe(c*)", cmdOn(1, "PUNSUBSCRIBE", "c*"), func(db *sugardb.SugarDB, t string) { db.PUnsubscribe(t, "c*") }},
		{"W.PUBLISH c1", cmdOn(0, "PUBLISH", "c1", "m"), nil},
		{"W.SUBSCRIBE c1", cmdOn(0, "SUBSCRIBE", "c1"), nil},
	}
}

func c18Embedded(first, depth int, w *Worker, res *UnitResult) {
	ops := c18EmbOps()
	seq := make([]int, depth)
	seq[0] = first
	var rec func(i int) bool
	run := func() bool { // false = stop the unit (hang)
		var names []string
		for _, k := range seq {
			names = append(names, ops[k].name)
		}
		id := "embedded: " + strings.Join(names, " ; ")
		if !w.Case(id) {
			return true
		}
		wld, _, err := buildWorld(InstCfg{Conns: 3}, nil)
		if err != nil || wld.Dead() {
			return true
		}
		defer wld.Close()
		tag := fmt.Sprintf("verif-emb-%d", c18EmbTag.Add(1))
		tab := newC18Table()
		add := func(step int, kind, sig, detail string) {
			res.Findings = append(res.Findings, Finding{Prop: "C18", Kind: kind, Sig: sig, Cost: step,
				Detail: fmt.Sprintf("embedded subscriber (tag %s) after [%s]: %s", tag, strings.Join(names[:step+1], " ; "), detail)})
		}
		for step, k := range seq {
			op := ops[k]
			var o StepOut
			msg := ""
			if op.api != nil {
				_, p, h := wld.in.Call(func() error { op.api(wld.in.db, tag); return nil })
				o.Panic, o.Hang = p, h
			} else {
				a := op.tab
				if a.A[0] == "PUBLISH" {
					msg = fmt.Sprintf("m%d", step)
					a = cmdOn(0, "PUBLISH", "c1", msg)
				}
				o = wld.Do(a)
			}
			res.Stats["transitions"]++
			if o.Hang {
				add(step, "hang", "hang|embedded-api|"+op.name, "the call did not return within the watchdog")
				res.HangCase = id
				return false
			}
			if o.Panic != "" {
				add(step, "panic", "panic|embedded-api|"+panicSite(o.Panic), firstLine(o.Panic))
				return true
			}
			tab.step(op.tab)
			raw, _ := sugardb.VerifEmbeddedTake(tag)
			frames, bad := c18Frames(raw)
			if bad != "" {
				add(step, "malformed-frames", "malformed-frames|embedded-api", fmt.Sprintf("the subscriber's pipe carries bytes that are not a sequence of RESP values: %s (%q)", bad, firstN(string(raw), 120)))
			}
			res.Stats["conformance_checks"]++
			if msg != "" {
				want, got := 0, 0
				if tab.receives(1, "c1") {
					want = 1
				}
				for _, f := range frames {
					if len(f.Arr) > 0 && f.Arr[len(f.Arr)-1].Text() == msg {
						got++
					}
				}
				if got != want {
					how := "by-name"
					byName, byPat := tab.ch[1]["c1"], false
					for p := range tab.pat[1] {
						if globMatch(p, "c1") {
							byPat = true
						}
					}
					switch {
					case byName && byPat:
						how = "by-name-and-pattern"
					case byPat:
						how = "by-pattern"
					case !byName:
						how = "not-subscribed"
					}
					add(step, "delivery-count", fmt.Sprintf("delivery-count|PUBLISH|%s|want%d-got%d", how, want, got),
						fmt.Sprintf("the embedded subscriber (channels %v, patterns %v) received %d frame(s) for channel c1, expected %d", sortedKeys(tab.ch[1]), sortedKeys(tab.pat[1]), got, want))
				}
			}
			// the subscription table as the server reports it
			q := wld.Do(cmdOn(2, "PUBSUB", "NUMSUB", "c1", "c2"))
			var wantNS, gotNS []string
			for _, chn := range []string{"c1", "c2"} {
				n := 0
				for c := 0; c < 3; c++ {
					if tab.ch[c][chn] {
						n++
					}
				}
				wantNS = append(wantNS, fmt.Sprintf("%s=%d", chn, n))
			}
			if len(q.V.Arr) > 0 && len(q.V.Arr[0].Arr) == 2 {
				for _, e := range q.V.Arr {
					gotNS = append(gotNS, fmt.Sprintf("%s=%d", e.Arr[0].Text(), e.Arr[1].I))
				}
			} else {
				for i := 0; i+1 < len(q.V.Arr); i += 2 {
					gotNS = append(gotNS, fmt.Sprintf("%s=%s", q.V.Arr[i].Text(), q.V.Arr[i+1].Text()))
				}
			}
			if strings.Join(gotNS, ",") != strings.Join(wantNS, ",") {
				add(step, "introspection", "introspection|embedded-api|NUMSUB", fmt.Sprintf("NUMSUB %v, subscription table says %v", gotNS, wantNS))
			}
			q = wld.Do(cmdOn(2, "PUBSUB", "NUMPAT"))
			if np := int64(len(tab.pat[1])); q.V.K != ':' || q.V.I != np {
				add(step, "introspection", "introspection|embedded-api|NUMPAT", fmt.Sprintf("NUMPAT %s, subscription table has %d pattern(s)", q.Brief(), np))
			}
			if q.Hang || wld.Dead() {
				return true
			}
		}
		return true
	}
	rec = func(i int) bool {
		if i == depth {
			return run()
		}
		for k := range ops {
			seq[i] = k
			if !rec(i + 1) {
				return false
			}
		}
		return true
	}
	rec(1)
}
