package main

import (
	"bytes"
	"crypto/sha256"
	"encoding/hex"
	"encoding/json"
	"fmt"
	"io"
	"net"
	"os"
	"runtime/debug"
	"strconv"
	"sync"
	"time"

	"github.com/echovault/sugardb/internal/config"
	"github.com/echovault/sugardb/sugardb"
	"github.com/echovault/sugardb/verifrt"
)

// ---- in-memory connection served by the real handleConnection ----

type memAddr struct{}

func (memAddr) Network() string { return "mem" }
func (memAddr) String() string  { return "mem" }

type memConn struct {
	name string
	tok  verifrt.Tok // tracking epoch of the instance this connection belongs to
	mu   sync.Mutex
	cond *sync.Cond
	in   [][]byte // pending segments (one per Read)
	out  bytes.Buffer
	closed,
	readerParked bool
	stalled      bool
	reads int // number of Read calls that returned data
}

func newMemConn(name string) *memConn {
	c := &memConn{name: name}
	c.cond = sync.NewCond(&c.mu)
	return c
}

func (c *memConn) Read(b []byte) (int, error) {
	c.mu.Lock()
	defer c.mu.Unlock()
	for len(c.in) == 0 && !c.closed {
		if !c.readerParked {
			c.readerParked = true
			verifrt.Park(c.tok)
		}
		c.cond.Wait()
	}
	if c.readerParked { // woken by close
		c.readerParked = false
		verifrt.Unpark(c.tok)
	}
	if len(c.in) == 0 {
		return 0, io.EOF
	}
	seg := c.in[0]
	n := copy(b, seg)
	if n < len(seg) {
		c.in[0] = seg[n:]
	} else {
		c.in = c.in[1:]
	}
	c.reads++
	return n, nil
}

// Supply hands the server the next segment (exactly one Read returns it, or
// several if it is larger than the reader's buffer).
func (c *memConn) Supply(seg []byte) {
	c.mu.Lock()
	c.in = append(c.in, append([]byte(nil), seg...))
	if c.readerParked {
		c.readerParked = false
		verifrt.Unpark(c.tok)
	}
	c.cond.Broadcast()
	c.mu.Unlock()
}

// Stall makes every later Write block until the connection is closed: a peer that has stopped reading with full buffers.
func (c *memConn) Stall() { c.mu.Lock(); c.stalled = true; c.mu.Unlock() }

func (c *memConn) Write(b []byte) (int, error) {
	c.mu.Lock()
	defer c.mu.Unlock()
	if c.stalled && !c.closed {
		// the writer (a goroutine of the code under test) blocks here for good: it does not count as running
		tok := verifrt.CurrentTok()
		verifrt.Park(tok)
		for !c.closed {
			c.cond.Wait()
		}
		verifrt.Unpark(tok)
	}
	if c.closed {
		return 0, io.ErrClosedPipe
	}
	c.out.Write(b)
	return len(b), nil
}

func (c *memConn) Take() []byte {
	c.mu.Lock()
	defer c.mu.Unlock()
	b := append([]byte(nil), c.out.Bytes()...)
	c.out.Reset()
	return b
}

func (c *memConn) Close() error {
	c.mu.Lock()
	c.closed = true
	if c.readerParked {
		// the reader is about to wake up and run the end of the connection loop: it counts as running from now on,
		// so that a Quiesce after Close really waits for it (it still calls into the dispatcher once, with EOF)
		c.readerParked = false
		verifrt.Unpark(c.tok)
	}
	c.cond.Broadcast()
	c.mu.Unlock()
	return nil
}
func (c *memConn) IsClosed() bool                   { c.mu.Lock(); defer c.mu.Unlock(); return c.closed }
func (c *memConn) LocalAddr() net.Addr              { return memAddr{} }
func (c *memConn) RemoteAddr() net.Addr             { return memAddr{} }
func (c *memConn) SetDeadline(time.Time) error      { return nil }
func (c *memConn) SetWriteDeadline(time.Time) error { return nil }

// The ACL module expires the read deadline of connections it terminates.
func (c *memConn) SetReadDeadline(t time.Time) error {
	if !t.IsZero() && !t.After(verifrt.Now()) {
		c.Close()
	}
	return nil
}

// ---- instance ----

type InstCfg struct {
	DataDir         string `json:",omitempty"` // "" = no persistence
	RestoreAOF      bool   `json:",omitempty"`
	RestoreSnapshot bool   `json:",omitempty"`
	AOFSync         string `json:",omitempty"` // always|everysec|no (default no)
	MaxMemory       uint64 `json:",omitempty"`
	Policy          string `json:",omitempty"` // default noeviction
	EvictionSample  uint   `json:",omitempty"`
	EvictionIntvMs  int64  `json:",omitempty"`
	SnapThreshold   uint64 `json:",omitempty"`
	SnapIntervalMs  int64  `json:",omitempty"`
	RequirePass     bool   `json:",omitempty"`
	Password        string `json:",omitempty"`
	AclConfig       string `json:",omitempty"`
	Conns           int    `json:",omitempty"` // number of client connections to open (default 1)
}

type Instance struct {
	cfg     InstCfg
	db      *sugardb.SugarDB
	conns   []*memConn
	netc    []*net.Conn
	dead    bool   // a panic or hang happened; the instance must not be used any more
	deadWhy string
	panics  []string
	leaked  int // goroutines of this instance found blocked for ever in a channel send
	cmu     sync.Mutex
}

type confT = config.Config

var baseConfOnce sync.Once
var baseConfStore config.Config

func newInstance(cfg InstCfg) (*Instance, error) {
	db, err := newInstanceRaw(cfg)
	if err != nil {
		return nil, err
	}
	in := &Instance{cfg: cfg, db: db}
	n := cfg.Conns
	if n == 0 {
		n = 1
	}
	if n < 0 {
		n = 0
	}
	for i := 0; i < n; i++ {
		in.openConn()
		in.Quiesce() // one at a time: connection ids are then deterministic (c<k> has id k+1)
	}
	in.Quiesce()
	return in, nil
}

// newInstanceRaw builds the configuration and starts the server (no connections).
func newInstanceRaw(cfg InstCfg) (*sugardb.SugarDB, error) {
	conf := defaultConf()
	conf.DataDir = cfg.DataDir
	conf.RestoreAOF = cfg.RestoreAOF
	conf.RestoreSnapshot = cfg.RestoreSnapshot
	conf.AOFSyncStrategy = "no"
	if cfg.AOFSync != "" {
		conf.AOFSyncStrategy = cfg.AOFSync
	}
	conf.MaxMemory = cfg.MaxMemory
	conf.EvictionPolicy = "noeviction"
	if cfg.Policy != "" {
		conf.EvictionPolicy = cfg.Policy
	}
	if cfg.EvictionSample != 0 {
		conf.EvictionSample = cfg.EvictionSample
	}
	conf.EvictionInterval = time.Hour * 24 * 365
	if cfg.EvictionIntvMs != 0 {
		conf.EvictionInterval = time.Duration(cfg.EvictionIntvMs) * time.Millisecond
	}
	conf.SnapShotThreshold = cfg.SnapThreshold
	conf.SnapshotInterval = time.Duration(cfg.SnapIntervalMs) * time.Millisecond
	conf.RequirePass = cfg.RequirePass
	conf.Password = cfg.Password
	conf.AclConfig = cfg.AclConfig
	conf.BindAddr = "localhost"
	return sugardb.NewSugarDB(sugardb.WithConfig(conf))
}

func (in *Instance) openConn() int {
	c := newMemConn(fmt.Sprintf("c%d", len(in.conns)))
	in.conns = append(in.conns, c)
	var nc net.Conn = c
	in.netc = append(in.netc, &nc)
	tok := verifrt.TrackBegin()
	c.tok = tok
	go func() {
		defer verifrt.TrackEnd(tok)
		defer func() {
			if r := recover(); r != nil {
				in.cmu.Lock()
				in.panics = append(in.panics, fmt.Sprintf("%v\n%s", r, debug.Stack()))
				in.cmu.Unlock()
			}
		}()
		in.db.VerifServeConn(c)
	}()
	return len(in.conns) - 1
}

var hangTimeout = func() time.Duration {
	if v := os.Getenv("VERIF_HANG_S"); v != "" {
		if n, err := strconv.Atoi(v); err == nil && n > 0 {
			return time.Duration(n) * time.Second
		}
	}
	return 20 * time.Second
}()

// Quiesce waits for the instance to go idle.  Returns false on a hang.
func (in *Instance) Quiesce() bool {
	t0 := time.Now()
	ok, leaked := verifrt.QuiesceTimeout(hangTimeout, 30*time.Millisecond)
	if d := time.Since(t0); d > 5*time.Millisecond && os.Getenv("VERIF_SLOWQ") != "" {
		fmt.Fprintf(os.Stderr, "slow quiesce %v leaked=%d ok=%v\n", d, leaked, ok)
	}
	if !ok {
		in.dead = true
		in.deadWhy = "hang"
		return false
	}
	if leaked > in.leaked {
		in.leaked = leaked
	}
	for _, p := range verifrt.BgPanics() {
		in.panics = append(in.panics, "bg: "+p)
	}
	in.cmu.Lock()
	if len(in.panics) > 0 {
		in.dead = true
		in.deadWhy = "panic"
	}
	in.cmu.Unlock()
	return true
}

type Reply struct {
	Raw   []byte
	Panic string // non-empty if the command panicked (connection goroutine or background goroutine)
	Hang  bool
}

// Do sends one command as one segment on connection ci and returns all bytes
// the server wrote on that connection until the instance went idle.
func (in *Instance) Do(ci int, args ...string) Reply {
	return in.DoRaw(ci, encodeCmd(args))
}

func (in *Instance) DoRaw(ci int, seg []byte) Reply {
	if in.dead {
		return Reply{Panic: "instance dead: " + in.deadWhy}
	}
	c := in.conns[ci]
	c.Supply(seg)
	if !in.Quiesce() {
		return Reply{Hang: true, Raw: c.Take()}
	}
	r := Reply{Raw: c.Take()}
	if in.dead {
		in.cmu.Lock()
		r.Panic = in.panics[0]
		in.cmu.Unlock()
	}
	return r
}

// Embedded runs a command through the embedded entry point.
func (in *Instance) Embedded(args ...string) Reply {
	var r Reply
	var b []byte
	err, p, h := in.Call(func() error {
		var e error
		b, e = in.db.VerifHandleEmbedded(args)
		return e
	})
	r.Panic, r.Hang = p, h
	if err != nil {
		r.Raw = []byte("-Error " + err.Error() + "\r\n")
	} else {
		r.Raw = b
	}
	return r
}

// Call runs f (a call into the instance, e.g. a synchronous snapshot) in a tracked goroutine with
// panic capture and waits for quiescence under the hang watchdog.
func (in *Instance) Call(f func() error) (err error, panicked string, hang bool) {
	if in.dead {
		return nil, "instance dead: " + in.deadWhy, false
	}
	var mu sync.Mutex
	tok := verifrt.TrackBegin()
	go func() {
		defer verifrt.TrackEnd(tok)
		defer func() {
			if p := recover(); p != nil {
				mu.Lock()
				panicked = fmt.Sprintf("%v\n%s", p, debug.Stack())
				mu.Unlock()
			}
		}()
		e := f()
		mu.Lock()
		err = e
		mu.Unlock()
	}()
	if !in.Quiesce() {
		return nil, "", true
	}
	mu.Lock()
	defer mu.Unlock()
	if panicked != "" {
		in.dead = true
		in.deadWhy = "panic"
	}
	return err, panicked, false
}

// TakeAll drains what every connection except `except` has received.
func (in *Instance) TakeAll(except int) [][]byte {
	out := make([][]byte, len(in.conns))
	for i, c := range in.conns {
		if i != except {
			out[i] = c.Take()
		}
	}
	return out
}

func (in *Instance) connNames() map[*net.Conn]string {
	m := map[*net.Conn]string{}
	for i, p := range in.netc {
		m[p] = in.conns[i].name
	}
	return m
}

func (in *Instance) Dump() sugardb.VerifDump { return in.db.VerifDumpState(in.connNames()) }

// Close ends the connection loops (the instance itself has no Close that is safe to call in every state).
func (in *Instance) Close() {
	for _, c := range in.conns {
		c.Close()
	}
	if !in.dead {
		in.Quiesce()
	}
}

// Shutdown closes connections and the AOF engine files (clean stop).
func (in *Instance) Shutdown() {
	in.Close()
	if !in.dead {
		in.Call(func() error { in.db.ShutDown(); return nil })
	}
}

func defaultConf() (c confT) {
	baseConfOnce.Do(func() { baseConfStore = sugardb.DefaultConfig() })
	return baseConfStore
}

func hashJSON(v any) string {
	b, err := json.Marshal(v)
	if err != nil {
		panic(err)
	}
	h := sha256.Sum256(b)
	return hex.EncodeToString(h[:12])
}

