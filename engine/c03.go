package main

import (
	"encoding/json"
	"fmt"
	"strings"
	"time"
)

// C03 — snapshot round trip.
//
// SEQ search with snapshot/restart actions on the in-memory file system and a
// virtual clock.  Oracle:
//   (1) snap-restart: the restored dataset equals the dataset at the snapshot instant minus keys whose deadline
//       has passed at restore time — keys, kinds, values, deadlines, databases;
//   (2) LASTSAVE (command and internal value) = virtual time of the snapshot restored / last taken;
//   (3) automatic trigger: once >= threshold write commands have accumulated since the last snapshot, a snapshot
//       exists no later than one interval later (the interval ticker is virtual and fired by the clock action);
//   (4) the asynchronous SAVE command, once the server is quiescent, has produced a snapshot of the current dataset.
// The snapshot-under-concurrent-writers facet is explored by the scheduler (C05 background actor `getstate`).

type c03Check struct{}

func init() { register("C03", c03Check{}) }

func (c03Check) Describe() CheckInfo {
	return CheckInfo{
		Level: "model_checking",
		Rule: "explicit-state BFS over the real dispatcher + snapshot engine: alphabet = one write per value kind and database, deadlines, clock advances, synchronous snapshot, SAVE command, snapshot+restart, LASTSAVE; " +
			"second configuration family for the automatic trigger (threshold 1..3, virtual interval ticker). Non-trivial = distinct (state, action); states = distinct dumps incl. LASTSAVE.",
		Assumptions: []string{"virtual clock; the harness advances it by 1 ms before each snapshot (snapshot directories are named after the millisecond)"},
	}
}

// c03Roots: the empty server and one where the same key names live in two databases with different deadlines.
func c03Roots() [][]Action {
	return [][]Action{nil, {cmd("SET", "s", "zero"), cmd("SET", "vs", "v", "EX", "100"), cmd("SELECT", "1"), cmd("SET", "s", "one"), cmd("SET", "vs", "keep"), cmd("SELECT", "0")}}
}

type c03Args struct {
	Root      int
	Mode      string // roundtrip | auto
	Threshold uint64
	Shard     int
	Shards    int
	Depth     int
}

func (c03Check) Units(tier string, seed int64) []Unit {
	var us []Unit
	d := 3
	if tier == "thorough" {
		d = 4
	}
	sh := 16
	for root := range c03Roots() {
		for i := 0; i < sh; i++ {
			b, _ := json.Marshal(c03Args{Root: root, Mode: "roundtrip", Shard: i, Shards: sh, Depth: d})
			us = append(us, Unit{Name: fmt.Sprintf("roundtrip-root%d-depth%d-shard%d", root, d, i), Args: b})
		}
	}
	for t := uint64(1); t <= 3; t++ {
		b, _ := json.Marshal(c03Args{Mode: "auto", Threshold: t, Shards: 1, Depth: int(t) + d})
		us = append(us, Unit{Name: fmt.Sprintf("auto-threshold%d", t), Args: b})
	}
	for i := range c03SchedScenarios(tier) {
		b, _ := json.Marshal(c03Args{Mode: "sched", Root: i})
		us = append(us, Unit{Name: fmt.Sprintf("sched-%d", i), Args: b})
	}
	return us
}

const c03Interval = 5000

func c03Alphabet(mode string) []Action {
	if mode == "auto" {
		return []Action{cmd("SET", "k1", "v"), cmd("SET", "k2", "v"), cmd("MSET", "a", "1", "b", "2"), cmd("DEL", "k1"), adv(c03Interval), cmd("LASTSAVE")}
	}
	return []Action{
		cmd("SET", "s", "v"), cmd("SET", "n", "10"), cmd("SET", "f", "1.5"), cmd("SET", "vs", "v", "EX", "100"), cmd("RPUSH", "l", "a", "b"),
		cmd("HSET", "h", "f", "1", "g", "x"), cmd("SADD", "t", "m"), cmd("ZADD", "z", "1.5", "m"), cmd("SELECT", "1"), cmd("DEL", "s"), cmd("EXPIRE", "s", "50"),
		adv(1000), adv(200000), {K: "snap"}, {K: "snap-restart"}, tcmd("SAVE"), cmd("LASTSAVE"), // SAVE is timed: two snapshots never share a millisecond on a real clock (the directory is named after it)
	}
}

// looseDataset: what survives any reasonable encoding: key placement, scalar values as numbers/strings, deadlines, element texts.
func looseVal(v AVal) string {
	switch v.Kind {
	case "string", "int", "float":
		return "scalar:" + v.S
	}
	return "coll"
}

func c03Kinds(a Alpha) string {
	ks := map[string]bool{}
	for _, m := range a {
		for _, v := range m {
			if v.Kind != "string" {
				ks[v.Kind] = true
			}
		}
	}
	return fmt.Sprint(sortedKeys(ks))
}

// c03SchedScenarios: a snapshot in flight while a client writes; afterwards the clock moves, SAVE is issued once more and
// the server is "restarted" on the resulting files.  Every interleaving (preemption-bounded) must restore what some
// serial order of the same commands restores: a write acknowledged before the last SAVE may not be missing.
func c03SchedScenarios(tier string) []*SchedScenario {
	bound := 2
	if tier == "thorough" {
		bound = 3
	}
	cfg := InstCfg{DataDir: "/data"}
	after := []Action{adv(5), cmd("SAVE"), adv(5)}
	return []*SchedScenario{
		{Name: "SAVE || SET late v, then SAVE and restart", Cfg: cfg, Setup: []Action{cmd("SET", "a", "1"), adv(5)},
			Threads: [][]Action{{cmd("SAVE")}, {cmd("SET", "late", "v")}}, Bound: bound, MaxExec: 60000, After: after, Restorable: true},
		{Name: "SAVE || EXPIRE a 100 ; SET b 2, then SAVE and restart", Cfg: cfg, Setup: []Action{cmd("SET", "a", "1"), adv(5)},
			Threads: [][]Action{{cmd("SAVE")}, {cmd("EXPIRE", "a", "100"), cmd("SET", "b", "2")}}, Bound: bound, MaxExec: 60000, After: after, Restorable: true},
		{Name: "SAVE || SELECT 1 ; RPUSH l x, then SAVE and restart", Cfg: cfg, Setup: []Action{cmd("SET", "a", "1"), adv(5)},
			Threads: [][]Action{{cmd("SAVE")}, {cmd("SELECT", "1"), cmd("RPUSH", "l", "x")}}, Bound: bound, MaxExec: 60000, After: after, Restorable: true},
	}
}

func (c03Check) Run(u Unit, w *Worker) UnitResult {
	var a c03Args
	json.Unmarshal(u.Args, &a)
	res := UnitResult{Stats: map[string]int64{}}
	if a.Mode == "sched" {
		sc := c03SchedScenarios(u.Tier)[a.Root]
		if w.Case(sc.Name) {
			judgeScenario("C03", sc, &res)
		}
		return res
	}
	alpha := c03Alphabet(a.Mode)
	cfg := InstCfg{DataDir: "/data", RestoreSnapshot: true}
	if a.Mode == "auto" {
		cfg.SnapThreshold = a.Threshold
		cfg.SnapIntervalMs = c03Interval
	}
	spec := &SeqSpec{Prop: "C03", Cfg: cfg, Depth: a.Depth, Deadline: 15 * time.Minute,
		Alphabet: func(pre *State, depth int) []Action { return alpha }}
	spec.Check = func(path []Action, pre *State, act Action, out StepOut, post *State) []Finding {
		var fs []Finding
		name := act.K
		if len(act.A) > 0 {
			name = strings.ToUpper(act.A[0])
		}
		if out.Panic != "" {
			return []Finding{{Prop: "C03", Kind: "panic", Sig: "panic|" + name + "|" + panicSite(out.Panic), Detail: fmt.Sprintf("%s after [%s] panicked: %s", act, pathString(path), firstLine(out.Panic))}}
		}
		if post == nil {
			return nil
		}
		switch {
		case act.K == "snap-restart":
			res.Stats["round_trips"]++
			snapNow := pre.NowMs + 1 // the snapshot is taken 1 ms later
			if out.Err != "" && !strings.Contains(out.Err, "nothing new") {
				fs = append(fs, Finding{Prop: "C03", Kind: "snapshot-failed", Sig: "snapshot-failed|kinds=" + c03Kinds(pre.Alpha), Detail: fmt.Sprintf("snapshot of %q failed: %s", pre.Alpha, out.Err)})
				return fs
			}
			want := pre.Alpha.DropExpired(snapNow)
			got := post.Alpha
			if want.String() != got.String() {
				kind := "restored-dataset-differs"
				// classify: only representation of kinds lost?
				loose := func(x Alpha) string {
					o := Alpha{}
					for db, m := range x {
						o[db] = map[string]AVal{}
						for k, v := range m {
							o[db][k] = AVal{Kind: looseVal(v), Exp: v.Exp}
						}
					}
					return o.String()
				}
				wl, gl := loose(want), loose(got)
				if wl == gl || strings.ReplaceAll(wl, "scalar:10", "scalar:1e+01") == gl {
					kind = "retyped"
				}
				numFix := func(s string) string { return s }
				_ = numFix
				if kind != "retyped" {
					// integers come back as floats with the same numeric value: still a retyping
					if looseNumeric(want) == looseNumeric(got) {
						kind = "retyped"
					}
				}
				if kind == "retyped" {
					// one finding per kind whose representation did not survive
					for db, m := range want {
						for k, v := range m {
							if g, ok := got[db][k]; ok && g.String() != v.String() {
								fs = append(fs, Finding{Prop: "C03", Kind: kind, Sig: "retyped|kind=" + v.Kind + "|restored-as=" + g.Kind,
									Detail: fmt.Sprintf("snapshot + restart after [%s]: key %s was %s, restored as %s", pathString(path), k, v, g)})
							}
						}
					}
				} else {
					fs = append(fs, Finding{Prop: "C03", Kind: kind, Sig: kind + "|kinds=" + c03Kinds(want),
						Detail: fmt.Sprintf("snapshot + restart after [%s]: restored %q, dataset at the snapshot was %q", pathString(path), got, want)})
				}
			}
			if out.Err == "" && post.Dump.LatestSnapshot != snapNow {
				fs = append(fs, Finding{Prop: "C03", Kind: "lastsave", Sig: "lastsave-after-restore", Detail: fmt.Sprintf("LASTSAVE after restore is %d, the snapshot was taken at %d", post.Dump.LatestSnapshot, snapNow)})
			}
		case act.K == "snap":
			if out.Err == "" && post.Dump.LatestSnapshot != pre.NowMs+1 {
				fs = append(fs, Finding{Prop: "C03", Kind: "lastsave", Sig: "lastsave-after-snapshot", Detail: fmt.Sprintf("LASTSAVE after a snapshot at %d is %d", pre.NowMs+1, post.Dump.LatestSnapshot)})
			}
		case name == "LASTSAVE":
			want := fmt.Sprintf(":%d", pre.Dump.LatestSnapshot)
			if pre.Dump.LatestSnapshot == 0 {
				if !out.V.IsErr() && out.V.String() != ":0" {
					fs = append(fs, Finding{Prop: "C03", Kind: "lastsave", Sig: "lastsave-reply-without-snapshot", Detail: "LASTSAVE without any snapshot replied " + out.Brief()})
				}
			} else if out.V.String() != want {
				fs = append(fs, Finding{Prop: "C03", Kind: "lastsave", Sig: "lastsave-reply", Detail: fmt.Sprintf("LASTSAVE replied %s, last snapshot was at %d", out.Brief(), pre.Dump.LatestSnapshot)})
			}
		case name == "SAVE":
			// asynchronous: after quiescence a snapshot of the current dataset must exist (unless nothing new)
			res.Stats["save_commands"]++
			if out.V.IsErr() {
				fs = append(fs, Finding{Prop: "C03", Kind: "save", Sig: "save-error", Detail: "SAVE replied " + out.Brief()})
			} else if post.Dump.LatestSnapshot == pre.Dump.LatestSnapshot && pre.Dump.LatestSnapshot == 0 && len(pre.Alpha.DropExpired(pre.NowMs).String()) > 0 {
				fs = append(fs, Finding{Prop: "C03", Kind: "save", Sig: "save-no-snapshot|kinds=" + c03Kinds(pre.Alpha), Detail: fmt.Sprintf("SAVE replied OK but no snapshot exists once the server is idle (dataset %q)", pre.Alpha)})
			}
		case act.K == "adv" && a.Mode == "auto" && act.N >= c03Interval:
			// writes accumulated since the last snapshot, counted on the reference side
			n := uint64(0)
			for _, x := range path {
				if x.K == "cmd" && (x.A[0] == "SET" || x.A[0] == "MSET" || x.A[0] == "DEL") {
					n++
				}
			}
			// reference: a snapshot resets the count; find the last point of the path where a snapshot happened
			// (conservative: only judge when no snapshot has happened yet on this path)
			res.Stats["trigger_checks"]++
			if pre.Dump.LatestSnapshot == 0 && n >= a.Threshold && post.Dump.LatestSnapshot == 0 {
				rel := "more-than-threshold"
				if n == a.Threshold {
					rel = "exactly-threshold"
				}
				fs = append(fs, Finding{Prop: "C03", Kind: "auto-trigger", Sig: fmt.Sprintf("auto-snapshot-missing|threshold=%d|%s", a.Threshold, rel),
					Detail: fmt.Sprintf("threshold %d, %d write commands since start, one full interval elapsed after [%s]: no snapshot was taken", a.Threshold, n, pathString(path))})
			}
			if pre.Dump.LatestSnapshot == 0 && n == 0 && post.Dump.LatestSnapshot != 0 && a.Threshold > 0 {
				fs = append(fs, Finding{Prop: "C03", Kind: "auto-trigger", Sig: "auto-snapshot-without-writes", Detail: "a snapshot was taken although no write had accumulated"})
			}
		}
		return fs
	}
	runSeq(spec, c03Roots()[a.Root], func(i int) bool { return i%a.Shards == a.Shard }, w, &res)
	res.Samples = append(res.Samples, map[string]any{"mode": a.Mode, "threshold": a.Threshold, "depth": a.Depth, "alphabet": len(alpha)})
	return res
}

// looseNumeric renders a dataset with scalars compared numerically where they parse as numbers.
func looseNumeric(a Alpha) string {
	o := Alpha{}
	for db, m := range a {
		o[db] = map[string]AVal{}
		for k, v := range m {
			switch v.Kind {
			case "string", "int", "float":
				s := v.S
				var f float64
				if _, err := fmt.Sscanf(v.S, "%g", &f); err == nil && v.Kind != "string" {
					s = fmtFloat(f)
				}
				o[db][k] = AVal{Kind: "scalar", S: s, Exp: v.Exp}
			default:
				o[db][k] = AVal{Kind: "coll", Exp: v.Exp}
			}
		}
	}
	return o.String()
}
