package main

import (
	"path"
	"encoding/json"
	"fmt"
	"sort"
	"strings"
	"time"
)

// C18 — pub/sub: exactly-once, in-order delivery to current subscribers only.
//
// (a) SEQ: three connections (every byte each one receives is recorded) + the embedded publisher; actions
//     SUBSCRIBE/PSUBSCRIBE/UNSUBSCRIBE/PUNSUBSCRIBE/PUBLISH/PUBSUB ...; the server is brought to quiescence after
//     every action, so all delivery goroutines have run.  Reference = subscription table (connection -> channels,
//     patterns).  Per transition: each PUBLISH adds exactly one frame carrying the message to every connection that
//     is subscribed to the channel by name or through a matching pattern and nothing to any other connection;
//     (un)subscribe requests are confirmed once per channel with the running count; PUBSUB CHANNELS/NUMSUB/NUMPAT
//     equal the table.
// (b) SCHED: publisher thread(s) racing the per-channel and per-message delivery goroutines: per connection the
//     frames of one publisher to one channel must arrive in publish order, each exactly once.

type c18Check struct{}

func init() { register("C18", c18Check{}) }

func (c18Check) Describe() CheckInfo {
	return CheckInfo{
		Level: "model_checking",
		Rule: "explicit-state BFS over the real dispatcher with 3 recorded connections + embedded publisher (reference subscription table, per-transition conformance) and stateless preemption-bounded DFS over the schedules of publisher threads vs the channel and per-message delivery goroutines " +
			"(the cooperative scheduler owns the buffered message queue, the subscriber RW-mutex and every spawned goroutine); the same BFS from roots where a channel/pattern has delivered and lost its subscriber; " +
			"every sequence of embedded-API Subscribe/PSubscribe/Unsubscribe/PUnsubscribe forms on one tag, a wire subscriber and a publisher (the API's pipe is the shim's buffered duplex) against the same table; a subscriber that stops reading. Non-trivial = distinct (state, action) resp. distinct outcome.",
		Assumptions: []string{"a connection subscribed both by name and by a matching pattern receives ONE frame per publish (statement: 'exactly once to each connection')", "frame layout beyond 'last element is the message' is not compared"},
	}
}

type c18Args struct {
	Shard  int
	Shards int
	Depth  int
	Sched  []c05Scenario `json:",omitempty"`
	Stall  bool `json:",omitempty"` // the stalled-subscriber cases
	Root   []Action `json:",omitempty"` // history replayed before the search starts (subscriber turnover)
	Emb    bool     `json:",omitempty"` // embedded-subscriber facet: Shard = first operation, Depth = sequence length
}

func c18Alphabet() []Action {
	return []Action{
		cmdOn(0, "SUBSCRIBE", "c1"), cmdOn(1, "SUBSCRIBE", "c1", "c2"), cmdOn(0, "PSUBSCRIBE", "c*"), cmdOn(2, "PSUBSCRIBE", "c*", "d*"),
		cmdOn(0, "UNSUBSCRIBE", "c1"), cmdOn(1, "UNSUBSCRIBE"), cmdOn(0, "PUNSUBSCRIBE", "c*"), cmdOn(2, "PUNSUBSCRIBE"), cmdOn(1, "UNSUBSCRIBE", "c2", "zz"),
		cmdOn(0, "SUBSCRIBE", "c1", "c2"), cmdOn(1, "SUBSCRIBE", "c3", "c3"), cmdOn(2, "PSUBSCRIBE", "c3*", "c3*"), cmdOn(0, "PUBLISH", "c3", "m5"),
		cmdOn(2, "PUBLISH", "c1", "m1"), emb("PUBLISH", "c2", "m2"), cmdOn(0, "PUBLISH", "d", "m3"), cmdOn(1, "PUBLISH", "c1", "m4"),
		cmdOn(2, "PUBSUB", "CHANNELS"), cmdOn(2, "PUBSUB", "NUMSUB", "c1", "c2", "d"), cmdOn(2, "PUBSUB", "NUMPAT"), cmdOn(2, "PUBSUB", "CHANNELS", "c*"),
		// a pattern that does not match its own text, and a channel literally named like it
		cmdOn(1, "PSUBSCRIBE", "c[12]"), cmdOn(2, "PUBLISH", "c[12]", "m6"),
	}
}

type c18Table struct {
	ch  [3]map[string]bool
	pat [3]map[string]bool
}

func newC18Table() *c18Table {
	t := &c18Table{}
	for i := range t.ch {
		t.ch[i], t.pat[i] = map[string]bool{}, map[string]bool{}
	}
	return t
}

func globMatch(p, s string) bool {
	if strings.ContainsAny(p, "[?") {
		ok, err := path.Match(p, s)
		return err == nil && ok
	}
	if strings.HasSuffix(p, "*") {
		return strings.HasPrefix(s, p[:len(p)-1])
	}
	return p == s
}

func (t *c18Table) step(a Action) {
	if a.K != "cmd" {
		return
	}
	c := a.C
	switch strings.ToUpper(a.A[0]) {
	case "SUBSCRIBE":
		for _, x := range a.A[1:] {
			t.ch[c][x] = true
		}
	case "PSUBSCRIBE":
		for _, x := range a.A[1:] {
			t.pat[c][x] = true
		}
	case "UNSUBSCRIBE":
		if len(a.A) == 1 {
			t.ch[c] = map[string]bool{}
		}
		for _, x := range a.A[1:] {
			delete(t.ch[c], x)
		}
	case "PUNSUBSCRIBE":
		if len(a.A) == 1 {
			t.pat[c] = map[string]bool{}
		}
		for _, x := range a.A[1:] {
			delete(t.pat[c], x)
			// documented ("Unsubscribe from a list of channels using patterns"): channels subscribed by name
			// whose name matches the pattern are unsubscribed as well
			for k := range t.ch[c] {
				if globMatch(x, k) {
					delete(t.ch[c], k)
				}
			}
		}
	}
}

func c18TableOf(path []Action) *c18Table {
	t := newC18Table()
	for _, a := range path {
		t.step(a)
	}
	return t
}

func (t *c18Table) receives(c int, channel string) bool {
	if t.ch[c][channel] {
		return true
	}
	for p := range t.pat[c] {
		if globMatch(p, channel) {
			return true
		}
	}
	return false
}

func (t *c18Table) shape(c int) string {
	return fmt.Sprintf("ch%d/pat%d", len(t.ch[c]), len(t.pat[c]))
}

func (c18Check) Units(tier string, seed int64) []Unit {
	var us []Unit
	depth, shards := 4, 21
	if tier == "thorough" {
		depth = 5
	}
	for i := 0; i < shards; i++ {
		b, _ := json.Marshal(c18Args{Shard: i, Shards: shards, Depth: depth})
		us = append(us, Unit{Name: fmt.Sprintf("seq-depth%d-first%d", depth, i), Args: b})
	}
	{
		b, _ := json.Marshal(c18Args{Stall: true})
		us = append(us, Unit{Name: "stalled-subscriber", Args: b})
	}
	// subscriber turnover: a channel / pattern that has already delivered a message loses its subscriber; every
	// continuation (another connection taking its place, the same one returning, further publishes) is explored from there
	for i, root := range [][]Action{
		{cmdOn(0, "SUBSCRIBE", "c1"), cmdOn(2, "PUBLISH", "c1", "m0"), cmdOn(0, "UNSUBSCRIBE", "c1")},
		{cmdOn(0, "PSUBSCRIBE", "c*"), cmdOn(2, "PUBLISH", "c1", "m0"), cmdOn(0, "PUNSUBSCRIBE", "c*")},
		{cmdOn(0, "SUBSCRIBE", "c1", "c2"), cmdOn(1, "SUBSCRIBE", "c1", "c2"), emb("PUBLISH", "c2", "m0"), cmdOn(1, "UNSUBSCRIBE")},
	} {
		b, _ := json.Marshal(c18Args{Shard: 0, Shards: 1, Depth: depth - 1, Root: root})
		us = append(us, Unit{Name: fmt.Sprintf("turnover-%d-depth%d", i, depth-1), Args: b})
	}
	for i := range c18EmbOps() {
		b, _ := json.Marshal(c18Args{Emb: true, Shard: i, Depth: depth})
		us = append(us, Unit{Name: fmt.Sprintf("embedded-subscriber-len%d-first%d", depth, i), Args: b})
	}
	bound := 2
	if tier == "thorough" {
		bound = 3
	}
	var scns []c05Scenario
	pub2 := []Action{cmdOn(2, "PUBLISH", "c1", "m1"), cmdOn(2, "PUBLISH", "c1", "m2")}
	scns = append(scns,
		c05Scenario{Name: "one publisher, two messages, name subscriber", Extra: []Action{cmdOn(0, "SUBSCRIBE", "c1")}, Threads: [][]Action{nil, nil, pub2}, Bound: bound, MaxExec: 40000},
		c05Scenario{Name: "one publisher, two messages, pattern subscriber", Extra: []Action{cmdOn(0, "PSUBSCRIBE", "c*")}, Threads: [][]Action{nil, nil, pub2}, Bound: bound, MaxExec: 40000},
		c05Scenario{Name: "two publishers, one message each", Extra: []Action{cmdOn(0, "SUBSCRIBE", "c1")}, Threads: [][]Action{nil, {cmdOn(1, "PUBLISH", "c1", "p1")}, {cmdOn(2, "PUBLISH", "c1", "p2")}}, Bound: bound, MaxExec: 40000},
		c05Scenario{Name: "publish vs unsubscribe", Extra: []Action{cmdOn(0, "SUBSCRIBE", "c1")}, Threads: [][]Action{{cmdOn(0, "UNSUBSCRIBE", "c1")}, nil, {cmdOn(2, "PUBLISH", "c1", "m1")}}, Bound: bound, MaxExec: 40000},
		c05Scenario{Name: "publish vs subscribe", Threads: [][]Action{{cmdOn(0, "SUBSCRIBE", "c1")}, nil, {cmdOn(2, "PUBLISH", "c1", "m1")}}, Bound: bound, MaxExec: 40000},
		c05Scenario{Name: "subscribe vs subscribe same new channel", Threads: [][]Action{{cmdOn(0, "SUBSCRIBE", "c1")}, {cmdOn(1, "SUBSCRIBE", "c1")}, {cmdOn(2, "PUBLISH", "c1", "m1")}}, Bound: bound - 1, MaxExec: 40000},
	)
	for i := range scns {
		b, _ := json.Marshal(c18Args{Sched: scns[i : i+1]})
		us = append(us, Unit{Name: "sched-" + scns[i].Name, Args: b})
	}
	return us
}

// frames parses what a connection received into values (a malformed tail is reported separately).
func c18Frames(b []byte) ([]RV, string) {
	if len(b) == 0 {
		return nil, ""
	}
	vs, err := parseAll(b)
	if err != nil {
		return vs, err.Error()
	}
	return vs, ""
}

func (c18Check) Run(u Unit, w *Worker) UnitResult {
	var a c18Args
	json.Unmarshal(u.Args, &a)
	res := UnitResult{Stats: map[string]int64{}}
	if a.Stall {
		c18Stalled("C18", w, &res)
		return res
	}
	if a.Emb {
		c18Embedded(a.Shard, a.Depth, w, &res)
		return res
	}
	if len(a.Sched) > 0 {
		for _, s := range a.Sched {
			if w.Case(s.Name) {
				c18Sched(s, &res)
			}
		}
		return res
	}
	alpha := c18Alphabet()
	spec := &SeqSpec{Prop: "C18", Cfg: InstCfg{Conns: 3}, Depth: a.Depth, Deadline: 20 * time.Minute,
		Alphabet: func(pre *State, depth int) []Action { return alpha }}
	spec.Check = func(path []Action, pre *State, act Action, out StepOut, post *State) []Finding {
		var fs []Finding
		tab := c18TableOf(path)
		name := strings.ToUpper(act.A[0])
		if name == "PUBSUB" {
			name += " " + strings.ToUpper(act.A[1])
		}
		add := func(kind, sigExtra, detail string) {
			fs = append(fs, Finding{Prop: "C18", Kind: kind, Sig: kind + "|" + name + "|" + sigExtra,
				Detail: fmt.Sprintf("after [%s]: %s -> %s: %s", pathString(path), act, out.Brief(), detail)})
		}
		if out.Panic != "" {
			add("panic", panicSite(out.Panic), firstLine(out.Panic))
			return fs
		}
		// what every connection received during this action
		recv := make([][]RV, 3)
		for c := 0; c < 3; c++ {
			raw := out.Others[c]
			if act.K == "cmd" && act.C == c {
				raw = out.Raw
			}
			vs, bad := c18Frames(raw)
			if bad != "" {
				add("malformed-frames", fmt.Sprintf("conn%d", c), fmt.Sprintf("connection c%d received bytes that are not a sequence of RESP values: %s (%q)", c, bad, firstN(string(raw), 120)))
			}
			recv[c] = vs
		}
		res.Stats["conformance_checks"]++
		switch name {
		case "PUBLISH":
			channel, msg := act.A[1], act.A[2]
			for c := 0; c < 3; c++ {
				want := 0
				if tab.receives(c, channel) {
					want = 1
				}
				got := 0
				var frames []RV
				if act.K == "cmd" && act.C == c {
					// the publisher's own connection also carries the reply to PUBLISH (a non-array value), in any position
					replies := 0
					for _, f := range recv[c] {
						if f.K != '*' && f.K != '>' {
							replies++
							continue
						}
						frames = append(frames, f)
					}
					if replies != 1 {
						add("reply-count", "", fmt.Sprintf("the publisher received %d replies to one PUBLISH", replies))
					}
				} else {
					frames = recv[c]
				}
				for _, f := range frames {
					if len(f.Arr) > 0 && f.Arr[len(f.Arr)-1].Text() == msg {
						got++
					} else {
						add("stray-frame", fmt.Sprintf("conn%d", c), fmt.Sprintf("connection c%d received %s which does not carry the published message", c, f))
					}
				}
				if got != want {
					how := "by-name"
					byName, byPat := tab.ch[c][channel], false
					for p := range tab.pat[c] {
						if globMatch(p, channel) {
							byPat = true
						}
					}
					switch {
					case byName && byPat:
						how = "by-name-and-pattern"
					case byPat:
						how = "by-pattern"
					case !byName:
						how = "not-subscribed"
					}
					add("delivery-count", fmt.Sprintf("%s|want%d-got%d", how, want, got),
						fmt.Sprintf("connection c%d (subscribed to channels %v, patterns %v) received %d frame(s) for channel %s, expected %d", c, sortedKeys(tab.ch[c]), sortedKeys(tab.pat[c]), got, channel, want))
				}
			}
		case "SUBSCRIBE", "PSUBSCRIBE", "UNSUBSCRIBE", "PUNSUBSCRIBE":
			c := act.C
			// expected confirmations: one per channel named (or per current subscription when none is named), running count
			var names []string
			before := len(tab.ch[c]) + len(tab.pat[c])
			set := tab.ch[c]
			if name[0] == 'P' {
				set = tab.pat[c]
			}
			optional := map[string]bool{} // named but not subscribed: a confirmation is accepted but not required
			if len(act.A) > 1 {
				for _, n := range act.A[1:] {
					switch {
					case !strings.HasSuffix(name, "UNSUBSCRIBE"):
						names = append(names, n)
					case set[n]:
						names = append(names, n)
					default:
						optional[n] = true
					}
					if name == "PUNSUBSCRIBE" {
						for k := range tab.ch[c] {
							if globMatch(n, k) {
								names = append(names, k)
							}
						}
					}
				}
			} else {
				names = sortedKeys(set)
			}
			// flatten: the implementation may send one array of confirmations or one frame per confirmation
			var confs []RV
			for _, f := range recv[c] {
				if len(f.Arr) > 0 && len(f.Arr[0].Arr) > 0 {
					confs = append(confs, f.Arr...)
				} else if len(f.Arr) == 3 {
					confs = append(confs, f)
				} else if len(f.Arr) == 0 && f.K == '*' {
					// empty array: no confirmation
				} else {
					add("confirmation-shape", "", fmt.Sprintf("unexpected reply element %s", f))
				}
			}
			if len(optional) > 0 {
				var keep []RV
				for _, cf := range confs {
					if len(cf.Arr) == 3 && optional[cf.Arr[1].Text()] {
						continue
					}
					keep = append(keep, cf)
				}
				confs = keep
			}
			if len(confs) != len(names) {
				add("confirmation-count", fmt.Sprintf("named%d-got%d|%s", len(names), len(confs), tab.shape(c)), fmt.Sprintf("%d channel(s)/pattern(s) concerned %v but %d confirmation(s) received", len(names), names, len(confs)))
				break
			}
			// running counts
			cur := map[string]bool{}
			for k := range tab.ch[c] {
				cur["c:"+k] = true
			}
			for k := range tab.pat[c] {
				cur["p:"+k] = true
			}
			pfx := "c:"
			if name[0] == 'P' {
				pfx = "p:"
			}
			seenNames := map[string]bool{}
			for _, cf := range confs {
				seenNames[cf.Arr[1].Text()] = true
			}
			for _, n := range names {
				if !seenNames[n] {
					add("confirmation-name", "", fmt.Sprintf("no confirmation names %q (got %v)", n, confs))
				}
			}
			// counts in the order received
			wantCounts := []int64{}
			gotCounts := []int64{}
			for _, cf := range confs {
				n := cf.Arr[1].Text()
				if strings.HasSuffix(name, "UNSUBSCRIBE") {
					if _, ok := cur[pfx+n]; ok {
						delete(cur, pfx+n)
					} else {
						delete(cur, "c:"+n)
					}
				} else {
					cur[pfx+n] = true
				}
				wantCounts = append(wantCounts, int64(len(cur)))
				gotCounts = append(gotCounts, cf.Arr[2].I)
			}
			if fmt.Sprint(wantCounts) != fmt.Sprint(gotCounts) {
				_ = before
				add("confirmation-count-value", "", fmt.Sprintf("running subscription counts %v, expected %v", gotCounts, wantCounts))
			}
		case "PUBSUB CHANNELS":
			want := map[string]bool{}
			for c := 0; c < 3; c++ {
				for k := range tab.ch[c] {
					if len(act.A) < 3 || globMatch(act.A[2], k) {
						want[k] = true
					}
				}
			}
			// whether pattern subscriptions are listed as "active channels" is not specified: entries that are
			// current patterns are accepted but not required
			curPats := map[string]bool{}
			for c := 0; c < 3; c++ {
				for p := range tab.pat[c] {
					curPats[p] = true
				}
			}
			var got []string
			for _, g := range out.V.Strs() {
				if !(curPats[g] && !want[g]) {
					got = append(got, g)
				}
			}
			sort.Strings(got)
			if strings.Join(got, ",") != strings.Join(sortedKeys(want), ",") {
				add("introspection", "", fmt.Sprintf("active channels %v, subscription table says %v", got, sortedKeys(want)))
			}
		case "PUBSUB NUMSUB":
			var want []string
			for _, chn := range act.A[2:] {
				n := 0
				for c := 0; c < 3; c++ {
					if tab.ch[c][chn] {
						n++
					}
				}
				want = append(want, fmt.Sprintf("%s=%d", chn, n))
			}
			var got []string
			if len(out.V.Arr) > 0 && len(out.V.Arr[0].Arr) == 2 {
				for _, e := range out.V.Arr {
					got = append(got, fmt.Sprintf("%s=%d", e.Arr[0].Text(), e.Arr[1].I))
				}
			} else {
				for i := 0; i+1 < len(out.V.Arr); i += 2 {
					got = append(got, fmt.Sprintf("%s=%s", out.V.Arr[i].Text(), out.V.Arr[i+1].Text()))
				}
			}
			if strings.Join(got, ",") != strings.Join(want, ",") {
				add("introspection", "", fmt.Sprintf("NUMSUB %v, subscription table says %v", got, want))
			}
		case "PUBSUB NUMPAT":
			pats := map[string]bool{}
			total := 0
			for c := 0; c < 3; c++ {
				for p := range tab.pat[c] {
					pats[p] = true
					total++
				}
			}
			if out.V.K != ':' || (out.V.I != int64(len(pats)) && out.V.I != int64(total)) {
				add("introspection", "", fmt.Sprintf("NUMPAT %s, subscription table has %d distinct patterns (%d pattern subscriptions)", out.Brief(), len(pats), total))
			}
		}
		// connections that are not addressed by this action must receive nothing unless it is a PUBLISH
		if name != "PUBLISH" {
			for c := 0; c < 3; c++ {
				if act.K == "cmd" && act.C == c {
					continue
				}
				if len(recv[c]) > 0 {
					add("stray-frame", fmt.Sprintf("conn%d", c), fmt.Sprintf("connection c%d received %v although nothing was published", c, recv[c]))
				}
			}
		}
		return fs
	}
	runSeq(spec, a.Root, func(i int) bool { return i%a.Shards == a.Shard }, w, &res)
	res.Samples = append(res.Samples, map[string]any{"first_action": alpha[a.Shard%len(alpha)].String(), "depth": a.Depth, "alphabet": len(alpha), "root": pathString(a.Root)})
	return res
}

// c18Sched explores one delivery scenario: per connection, the frames for one publisher's messages to a channel
// must arrive once each and in publish order.
func c18Sched(s c05Scenario, res *UnitResult) {
	threads := make([][]Action, 3)
	copy(threads, s.Threads)
	sc := &SchedScenario{Name: s.Name, Setup: s.Extra, Threads: threads, Bound: s.Bound, MaxExec: s.MaxExec, NoEager: true}
	r := exploreScenario(sc)
	res.Stats["scenarios"]++
	res.Stats["executions"] += int64(r.Executions)
	res.Stats["transitions"] += int64(r.TotalPoints)
	if r.Err != "" {
		res.EngineError = "scenario " + s.Name + ": " + r.Err
		return
	}
	if r.Diverged != "" {
		// the implementation spawns one goroutine per subscriber in Go map iteration order, which the harness cannot own
		res.Capped = "scenario " + s.Name + ": schedule replay diverged (uncontrolled map iteration order): " + r.Diverged
	}
	if r.Stuck {
		res.Capped = "scenario " + s.Name + ": a thread blocked in a construct the scheduler does not own (engine limitation, scenario abandoned)"
		return
	}
	if r.Capped {
		res.Capped = "execution cap reached in " + s.Name
	}
	for _, k := range sortedOutcomeKeys(r.Outcomes) {
		o := r.Outcomes[k]
		res.Outcomes = append(res.Outcomes, hashJSON(s.Name+k))
		kind := ""
		detail := ""
		switch {
		case len(o.Panics) > 0:
			kind, detail = "panic", fmt.Sprint(o.Panics)
		case o.Deadlock:
			kind, detail = "deadlock", fmt.Sprint(o.Blocked)
		default:
			if _, ok := r.Serial[k]; ok {
				continue
			}
			kind = "delivery-not-serial"
			var ser []string
			for sk := range r.Serial {
				ser = append(ser, sk)
			}
			sort.Strings(ser)
			detail = fmt.Sprintf("connections received %q; serial executions give %q", o.Conn, ser)
		}
		res.Findings = append(res.Findings, Finding{Prop: "C18", Kind: kind, Sig: "delivery|" + s.Name + "|" + kind,
			Detail: fmt.Sprintf("scenario [%s] schedule with %d preemption(s), choices %v: %s", s.Name, o.Preempts, o.Choices, detail),
			Replay: map[string]any{"scenario": sc, "choices": o.Choices}, Cost: o.Preempts*1000 + len(o.Choices)})
	}
	res.Samples = append(res.Samples, map[string]any{"scenario": s.Name, "executions": r.Executions, "distinct_outcomes": len(r.Outcomes), "serial_outcomes": len(r.Serial), "bound": s.Bound})
}

// c18Stalled: one subscriber stops reading (its connection blocks every further write).  Messages published to it pile
// up, but every other connection must keep being served: other subscribers of the same channel or pattern receive the
// messages, new subscriptions are confirmed, publishes to other channels are answered.
func c18Stalled(prop string, w *Worker, res *UnitResult) {
	for _, kind := range []string{"SUBSCRIBE", "PSUBSCRIBE"} {
		id := "stalled " + kind
		if !w.Case(id) {
			continue
		}
		target := "news"
		if kind == "PSUBSCRIBE" {
			target = "n*"
		}
		wld, _, err := buildWorld(InstCfg{Conns: 4}, []Action{cmdOn(0, kind, target), cmdOn(1, kind, target)})
		if err != nil || wld.Dead() {
			continue
		}
		wld.in.conns[0].Stall()
		add := func(what string, o StepOut) {
			res.Findings = append(res.Findings, Finding{Prop: prop, Kind: "stalled-subscriber", Sig: "stalled-subscriber|" + kind + "|" + what,
				Detail: fmt.Sprintf("connection c0 (%s %s) stopped reading; then %s: %s", kind, target, what, o.Brief())})
		}
		steps := []struct {
			what string
			act  Action
			ok   func(StepOut) bool
		}{
			{"PUBLISH to the channel", cmdOn(2, "PUBLISH", "news", "m1"), func(o StepOut) bool { return !o.Hang && !o.Empty && !o.V.IsErr() }},
			{"a second PUBLISH to the channel", cmdOn(2, "PUBLISH", "news", "m2"), func(o StepOut) bool { return !o.Hang && !o.Empty && !o.V.IsErr() }},
			{"another connection subscribes to the same target", cmdOn(3, kind, target), func(o StepOut) bool { return !o.Hang && !o.Empty }},
			{"PUBLISH to another channel", cmdOn(2, "PUBLISH", "other", "x"), func(o StepOut) bool { return !o.Hang && !o.Empty && !o.V.IsErr() }},
			{"PUBSUB NUMSUB", cmdOn(2, "PUBSUB", "NUMSUB", "news"), func(o StepOut) bool { return !o.Hang && !o.Empty }},
			{"a third PUBLISH to the channel", cmdOn(2, "PUBLISH", "news", "m3"), func(o StepOut) bool { return !o.Hang && !o.Empty && !o.V.IsErr() }},
		}
		dead := false
		recv := make([]string, 4)
		for _, st := range steps {
			o := wld.Do(st.act)
			for ci, b := range o.Others {
				if ci < len(recv) {
					recv[ci] += string(b)
				}
			}
			if st.act.C < len(recv) {
				recv[st.act.C] += string(o.Raw)
			}
			res.Stats["transitions"]++
			if !st.ok(o) {
				add(st.what+" got no proper reply", o)
				dead = o.Hang
				break
			}
		}
		if !dead {
			// the healthy subscriber c1 got m1, m2, m3 (once each, in order); c3 (subscribed after m2) got m3
			got1 := recv[1] + string(wld.in.conns[1].Take())
			for _, m := range []string{"m1", "m2", "m3"} {
				if strings.Count(got1, m) != 1 {
					add(fmt.Sprintf("the healthy subscriber received %q %d times", m, strings.Count(got1, m)), StepOut{Empty: true})
				}
			}
			if i1, i2, i3 := strings.Index(got1, "m1"), strings.Index(got1, "m2"), strings.Index(got1, "m3"); i1 >= 0 && i2 >= 0 && i3 >= 0 && !(i1 < i2 && i2 < i3) {
				add("the healthy subscriber received the messages out of order", StepOut{Empty: true})
			}
			if got3 := recv[3] + string(wld.in.conns[3].Take()); strings.Count(got3, "m3") != 1 {
				add(fmt.Sprintf("the late subscriber received m3 %d times", strings.Count(got3, "m3")), StepOut{Empty: true})
			}
			wld.Close()
		} else {
			res.HangCase = id
			return
		}
	}
}
