package main

import (
	"encoding/json"
	"fmt"
	"strings"
)

// C06 — ACL authorisation: no command runs outside the user's rules.
//
// SEQ decision-table search.  Server with RequirePass; connection c0 is the administrator (default user), c1 the
// probed connection.  User profiles are the product of small rule domains applied through ACL SETUSER; the probes
// are commands of every family with single and multiple keys in permitted/forbidden mixes, pub/sub commands with
// permitted/forbidden channels, sub-commands and key-less commands, from the states {not authenticated,
// authenticated as u, rules changed after authentication}.  Oracle: a declarative evaluator written from docs/docs/acl.md
// over the STORED profile (so the decision procedure is judged independently of the rule parser): allowed <=> authenticated
// and enabled, every category of the command allowed, the command (or command|subcommand) allowed, every read key matched by
// a read pattern, every write key by a write pattern, every channel allowed and not excluded.  Denied => error reply and the
// whole state (data, subscriptions, connection table, ACL table) unchanged; allowed => no authorisation error.
// Key positions (read/write) of the probes are the harness's own table, not the implementation's key extraction.

type c06Check struct{}

func init() { register("C06", c06Check{}) }

func (c06Check) Describe() CheckInfo {
	return CheckInfo{
		Level: "model_checking",
		Rule: "enumeration of the decision table through the real dispatcher: rule sets = categories(7) x commands(5) x key patterns(6) x channel patterns(4), each in the states unauthenticated / authenticated / rules-changed-after-authentication, x ~75 probe commands (all families, multi-key mixes, sub-commands, pub/sub); " +
			"per probe the reply and the state are compared with a declarative evaluator over the stored profile. Non-trivial = distinct (profile, state, probe); outcomes = (allowed|denied, agrees|differs).",
		Assumptions: []string{"command categories are taken from the server's own command table; key positions of the probes are the harness's", "HELLO/AUTH/PING/ECHO are exempt (statement)"},
	}
}

type c06Args struct {
	Shard, Shards int
	Tier          string
}

type c06Probe struct {
	A  []string
	R  []string // keys read
	W  []string // keys written
	Ch []string // channels
}

func c06Probes() []c06Probe {
	ok1, ok2, no := "a1", "a2", "b1"
	var ps []c06Probe
	rd := func(args []string, keys ...string) { ps = append(ps, c06Probe{A: args, R: keys}) }
	wr := func(args []string, keys ...string) { ps = append(ps, c06Probe{A: args, W: keys}) }
	for _, k := range []string{ok1, no} {
		rd([]string{"GET", k}, k)
		rd([]string{"TTL", k}, k)
		rd([]string{"TYPE", k}, k)
		rd([]string{"LRANGE", k, "0", "-1"}, k)
		rd([]string{"HGET", k, "f"}, k)
		rd([]string{"SMEMBERS", k}, k)
		rd([]string{"ZCARD", k}, k)
		rd([]string{"STRLEN", k}, k)
		wr([]string{"SET", k, "v"}, k)
		wr([]string{"INCR", k}, k)
		wr([]string{"EXPIRE", k, "100"}, k)
		wr([]string{"LPUSH", k, "e"}, k)
		wr([]string{"HSET", k, "f", "v"}, k)
		wr([]string{"SADD", k, "m"}, k)
		wr([]string{"ZADD", k, "1", "m"}, k)
		wr([]string{"APPEND", k, "x"}, k)
		// commands whose names extend the name of a command that rule sets grant or refuse by name (get, set, mget)
		rd([]string{"GETRANGE", k, "0", "1"}, k)
		ps = append(ps, c06Probe{A: []string{"GETDEL", k}, R: []string{k}, W: []string{k}}) // returns the value and removes it
		ps = append(ps, c06Probe{A: []string{"GETEX", k, "PERSIST"}, R: []string{k}, W: []string{k}})
		wr([]string{"SETRANGE", k, "0", "x"}, k)
	}
	for _, pair := range [][2]string{{ok1, ok2}, {ok1, no}, {no, ok1}, {no, no}} {
		rd([]string{"MGET", pair[0], pair[1]}, pair[0], pair[1])
		rd([]string{"SINTER", pair[0], pair[1]}, pair[0], pair[1])
		rd([]string{"SUNION", pair[0], pair[1]}, pair[0], pair[1])
		rd([]string{"ZUNION", pair[0], pair[1]}, pair[0], pair[1])
		wr([]string{"MSET", pair[0], "v", pair[1], "v"}, pair[0], pair[1])
		wr([]string{"DEL", pair[0], pair[1]}, pair[0], pair[1])
		ps = append(ps, c06Probe{A: []string{"SUNIONSTORE", pair[0], pair[1]}, W: []string{pair[0]}, R: []string{pair[1]}})
		ps = append(ps, c06Probe{A: []string{"ZUNIONSTORE", pair[0], pair[1]}, W: []string{pair[0]}, R: []string{pair[1]}})
		ps = append(ps, c06Probe{A: []string{"SDIFFSTORE", pair[0], pair[1], pair[1]}, W: []string{pair[0]}, R: []string{pair[1], pair[1]}})
	}
	for _, chs := range [][]string{{"c1"}, {"d1"}, {"c2", "c1"}, {"c2", "d1"}, {"d1", "c2"}} {
		ps = append(ps, c06Probe{A: append([]string{"SUBSCRIBE"}, chs...), Ch: chs})
		ps = append(ps, c06Probe{A: append([]string{"PSUBSCRIBE"}, chs...), Ch: chs})
	}
	ps = append(ps, c06Probe{A: []string{"PUBLISH", "c1", "m"}, Ch: []string{"c1"}}, c06Probe{A: []string{"PUBLISH", "d1", "m"}, Ch: []string{"d1"}})
	for _, a := range [][]string{{"ACL", "WHOAMI"}, {"ACL", "LIST"}, {"ACL", "SETUSER", "x", "on"}, {"ACL", "DELUSER", "x"}, {"FLUSHDB"}, {"FLUSHALL"}, {"SELECT", "1"}, {"SWAPDB", "0", "1"},
		{"RANDOMKEY"}, {"LASTSAVE"}, {"COMMAND", "COUNT"}, {"PUBSUB", "CHANNELS"}, {"PING"}, {"ECHO", "x"}} {
		ps = append(ps, c06Probe{A: a})
	}
	return ps
}

func c06RuleSets(tier string) [][]string {
	cats := []string{"+@all", "+@read +@fast +@slow +@keyspace", "+@write +@fast +@slow +@keyspace", "+@all -@dangerous", "+@all -@write", "-@all", "+@pubsub +@fast +@slow +@connection"}
	cmds := []string{"+all", "+get +mget +set +subscribe", "+all -set -mget", "-all", "+acl|whoami +get"}
	keys := []string{"%RW~*", "%RW~a*", "%R~a* %W~b*", "%R~* %W~a*", "resetkeys", ""}
	chans := []string{"+&*", "+&c*", "+&* -&c1", ""}
	var out [][]string
	for _, c := range cats {
		for _, k := range cmds {
			for _, ks := range keys {
				for _, ch := range chans {
					out = append(out, strings.Fields(c+" "+k+" "+ks+" "+ch))
				}
			}
		}
	}
	return out
}

func (c06Check) Units(tier string, seed int64) []Unit {
	shards := 48
	var us []Unit
	for s := 0; s < shards; s++ {
		b, _ := json.Marshal(c06Args{Shard: s, Shards: shards, Tier: tier})
		us = append(us, Unit{Name: fmt.Sprintf("profiles-shard%d", s), Args: b})
	}
	return us
}

type c06Profile struct {
	Enabled, NoKeys                                            bool
	IncCat, ExcCat, IncCmd, ExcCmd, IncR, IncW, IncCh, ExcCh []string
}

func strs(v any) []string {
	l, _ := v.([]any)
	out := make([]string, 0, len(l))
	for _, x := range l {
		out = append(out, fmt.Sprint(x))
	}
	return out
}

func c06ProfileOf(st *State, user string) (*c06Profile, bool) {
	for _, u := range st.Dump.ACLUsers {
		m, _ := u.(map[string]any)
		if m["Username"] == user {
			b := func(k string) bool { x, _ := m[k].(bool); return x }
			return &c06Profile{Enabled: b("Enabled"), NoKeys: b("NoKeys"), IncCat: strs(m["IncludedCategories"]), ExcCat: strs(m["ExcludedCategories"]),
				IncCmd: strs(m["IncludedCommands"]), ExcCmd: strs(m["ExcludedCommands"]), IncR: strs(m["IncludedReadKeys"]), IncW: strs(m["IncludedWriteKeys"]),
				IncCh: strs(m["IncludedPubSubChannels"]), ExcCh: strs(m["ExcludedPubSubChannels"])}, true
		}
	}
	return nil, false
}

func hasOrStar(l []string, x string) bool {
	for _, e := range l {
		if e == "*" || strings.EqualFold(e, x) {
			return true
		}
	}
	return false
}

func anyGlob(globs []string, s string) bool {
	for _, g := range globs {
		if globMatch(g, s) || g == "*" {
			return true
		}
	}
	return false
}

// c06Allowed is the declarative policy of docs/docs/acl.md.  It returns the verdict and the first reason for a denial.
func c06Allowed(p *c06Profile, authenticated bool, name string, cats []string, pr c06Probe) (bool, string) {
	switch strings.ToLower(name) {
	case "ping", "echo", "hello", "auth":
		return true, "exempt"
	}
	if !authenticated {
		return false, "not-authenticated"
	}
	if !p.Enabled {
		return false, "user-disabled"
	}
	for _, c := range cats {
		if !hasOrStar(p.IncCat, c) {
			return false, "category-not-included"
		}
		if hasOrStar(p.ExcCat, c) {
			return false, "category-excluded"
		}
	}
	if !hasOrStar(p.IncCmd, name) {
		return false, "command-not-included"
	}
	if hasOrStar(p.ExcCmd, name) {
		return false, "command-excluded"
	}
	for _, ch := range pr.Ch {
		if !anyGlob(p.IncCh, ch) {
			return false, "channel-not-included"
		}
		if anyGlob(p.ExcCh, ch) {
			return false, "channel-excluded"
		}
	}
	if len(pr.R)+len(pr.W) > 0 {
		if p.NoKeys {
			return false, "nokeys"
		}
		for i, k := range pr.R {
			if !anyGlob(p.IncR, k) {
				return false, fmt.Sprintf("read-key-%d-of-%d-not-allowed", i+1, len(pr.R))
			}
		}
		for i, k := range pr.W {
			if !anyGlob(p.IncW, k) {
				return false, fmt.Sprintf("write-key-%d-of-%d-not-allowed", i+1, len(pr.W))
			}
		}
	}
	return true, ""
}

func isAuthzError(o StepOut) bool {
	if !o.V.IsErr() {
		return false
	}
	s := strings.ToLower(o.V.S)
	return strings.Contains(s, "authori") || strings.Contains(s, "authenticated") || strings.Contains(s, "unauthorized") || strings.Contains(s, "is disabled")
}

func (c06Check) Run(u Unit, w *Worker) UnitResult {
	var a c06Args
	json.Unmarshal(u.Args, &a)
	res := UnitResult{Stats: map[string]int64{}}
	probes := c06Probes()
	sets := c06RuleSets(a.Tier)
	cfg := InstCfg{Conns: 2, RequirePass: true, Password: "adminpw"}
	outcomes := map[string]struct{}{}
	for si, rules := range sets {
		if si%a.Shards != a.Shard {
			continue
		}
		for _, mode := range []string{"authenticated", "unauthenticated", "rules-changed", "failed-login-afterwards", "rules-repeated"} {

			setup := []Action{cmdOn(0, "AUTH", "adminpw"),
				cmdOn(0, "SET", "a1", "x"), cmdOn(0, "SET", "b1", "x")}
			switch mode {
			case "authenticated":
				setup = append(setup, cmdOn(0, append([]string{"ACL", "SETUSER", "u", "on", ">p"}, rules...)...), cmdOn(1, "AUTH", "u", "p"))
			case "failed-login-afterwards":
				// authenticated as u, then a login attempt as the (all-powerful) default user is refused: the connection
				// is still u's and still bound by u's rules
				setup = append(setup, cmdOn(0, append([]string{"ACL", "SETUSER", "u", "on", ">p"}, rules...)...), cmdOn(1, "AUTH", "u", "p"),
					cmdOn(1, "AUTH", "default", "not-the-password"), cmdOn(1, "HELLO", "2", "AUTH", "default", "nope"))
			case "rules-repeated":
				// the same rules granted a second time to the existing user: the decision is a function of the SET of rules
				setup = append(setup, cmdOn(0, append([]string{"ACL", "SETUSER", "u", "on", ">p"}, rules...)...), cmdOn(1, "AUTH", "u", "p"),
					cmdOn(0, append([]string{"ACL", "SETUSER", "u"}, rules...)...))
			case "unauthenticated":
				setup = append(setup, cmdOn(0, append([]string{"ACL", "SETUSER", "u", "on", ">p"}, rules...)...))
			case "rules-changed":
				// authenticate under permissive rules, then the administrator installs the rule set under test
				setup = append(setup, cmdOn(0, "ACL", "SETUSER", "u", "on", ">p", "+@all", "+all", "%RW~*", "+&*"), cmdOn(1, "AUTH", "u", "p"),
					cmdOn(0, append([]string{"ACL", "SETUSER", "u", "-@all", "-all", "resetkeys", "-&*"}, rules...)...))
			}
			caseID := fmt.Sprintf("%s rules=%v", mode, rules)
			if !w.Case(caseID) {
				continue
			}
			var wld *World
			var pre *State
			build := func() bool {
				var err error
				wld, _, err = buildWorld(cfg, setup)
				if err != nil || wld.Dead() {
					return false
				}
				pre = wld.State()
				return true
			}
			if !build() {
				res.Findings = append(res.Findings, Finding{Prop: "C06", Kind: "setup", Sig: "setup-failed|" + mode, Detail: "cannot install rules " + strings.Join(rules, " ")})
				continue
			}
			prof, ok := c06ProfileOf(pre, "u")
			if !ok {
				res.Findings = append(res.Findings, Finding{Prop: "C06", Kind: "setup", Sig: "user-missing|" + mode, Detail: "user u not in the ACL table after SETUSER " + strings.Join(rules, " ")})
				wld.Close()
				continue
			}
			for _, pr := range probes {
				if wld == nil && !build() {
					break
				}
				name, cats := wld.in.db.VerifCommandCategories(pr.A)
				want, reason := c06Allowed(prof, mode != "unauthenticated", name, cats, pr)
				out := wld.Do(cmdOn(1, pr.A...))
				res.Stats["transitions"]++
				if out.Panic != "" {
					res.Findings = append(res.Findings, Finding{Prop: "C06", Kind: "panic", Sig: "panic|" + strings.ToUpper(name), Detail: fmt.Sprintf("[%s, rules %v] %v panicked: %s", mode, rules, pr.A, firstLine(out.Panic))})
					wld.Close()
					wld = nil
					continue
				}
				post := wld.State()
				denied := isAuthzError(out)
				got := !denied
				outcomes[fmt.Sprintf("%v|%v|%s", want, got, reason)] = struct{}{}
				shape := fmt.Sprintf("%s|r%d-w%d-ch%d", strings.ToUpper(name), len(pr.R), len(pr.W), len(pr.Ch))
				switch {
				case want && !got:
					res.Findings = append(res.Findings, Finding{Prop: "C06", Kind: "over-denied", Sig: "denied-but-allowed|" + mode + "|" + shape,
						Detail: fmt.Sprintf("[%s] profile %+v: %v is allowed by the rules but was refused: %s", mode, *prof, pr.A, out.Brief()), Replay: replayOf(cfg, setup, cmdOn(1, pr.A...))})
				case !want && got:
					res.Findings = append(res.Findings, Finding{Prop: "C06", Kind: "executed-outside-rules", Sig: "executed-but-denied|" + mode + "|" + shape + "|" + reason,
						Detail: fmt.Sprintf("[%s] profile %+v: %v must be refused (%s) but was executed: %s", mode, *prof, pr.A, reason, out.Brief()), Replay: replayOf(cfg, setup, cmdOn(1, pr.A...))})
				case !want && post.Key != pre.Key:
					res.Findings = append(res.Findings, Finding{Prop: "C06", Kind: "denied-with-effect", Sig: "denied-with-effect|" + mode + "|" + shape,
						Detail: fmt.Sprintf("[%s] %v was refused (%s) but the state changed", mode, pr.A, out.Brief()), Replay: replayOf(cfg, setup, cmdOn(1, pr.A...))})
				}
				if post.Key != pre.Key {
					wld.Close()
					wld = nil
				}
			}
			if wld != nil {
				wld.Close()
			}
		}
	}
	for o := range outcomes {
		res.Outcomes = append(res.Outcomes, o)
	}
	res.Hashes = append(res.Hashes, fmt.Sprintf("shard%d", a.Shard), fmt.Sprintf("shard%d-b", a.Shard))
	// Rule edits accumulate: a user locked out by a wildcard exclusion stays locked out when a narrower exclusion of the
	// same kind is added afterwards.  The expectation here comes from the rule history itself, not from the stored
	// profile (a defect in how the stored lists are rewritten would make the stored profile agree with the behaviour).
	if a.Shard == 0 {
		type lockout struct {
			name  string
			edits [][]string
			deny  [][]string
		}
		data := [][]string{{"GET", "a1"}, {"SET", "a1", "y"}, {"DEL", "a1"}, {"RPUSH", "l", "x"}, {"FLUSHDB"}}
		for _, lo := range []lockout{
			{"-@all then -@dangerous", [][]string{{"-@all"}, {"-@dangerous"}}, data},
			{"-@all then -@write", [][]string{{"-@all"}, {"-@write"}}, data},
			{"-all then -flushall", [][]string{{"-all"}, {"-flushall"}}, data},
			{"nocommands then -set", [][]string{{"nocommands"}, {"-set"}}, data},
			{"resetchannels then -&private.*", [][]string{{"resetchannels"}, {"-&private.*"}}, [][]string{{"PUBLISH", "c1", "m"}, {"SUBSCRIBE", "c1"}}},
		} {
			if !w.Case("lockout " + lo.name) {
				continue
			}
			setup := []Action{cmdOn(0, "AUTH", "adminpw"), cmdOn(0, "SET", "a1", "x"),
				cmdOn(0, "ACL", "SETUSER", "u", "on", ">p", "+@all", "+all", "%RW~*", "+&*"), cmdOn(1, "AUTH", "u", "p")}
			for _, e := range lo.edits {
				setup = append(setup, cmdOn(0, append([]string{"ACL", "SETUSER", "u"}, e...)...))
			}
			for _, pr := range lo.deny {
				wld, outs, err := buildWorld(cfg, setup)
				if err != nil || wld.Dead() {
					continue
				}
				bad := false
				for _, o := range outs[4:] {
					if o.V.IsErr() {
						bad = true // the rule token itself is not accepted: nothing to judge
					}
				}
				pre := wld.State()
				out := wld.Do(cmdOn(1, pr...))
				post := wld.State()
				res.Stats["transitions"]++
				res.Stats["lockout_probes"]++
				if !bad && !isAuthzError(out) && !out.Empty {
					res.Findings = append(res.Findings, Finding{Prop: "C06", Kind: "executed-but-denied", Sig: "lockout-lost|" + lo.name + "|" + strings.ToUpper(pr[0]),
						Detail: fmt.Sprintf("user locked out by %v: %v was answered %s (the narrower exclusion re-opened the wildcard one)", lo.edits, pr, out.Brief())})
				} else if !bad && pre != nil && post != nil && dbKey(pre.Alpha[0]) != dbKey(post.Alpha[0]) {
					res.Findings = append(res.Findings, Finding{Prop: "C06", Kind: "denied-but-changed", Sig: "lockout-lost|" + lo.name + "|" + strings.ToUpper(pr[0]) + "|state",
						Detail: fmt.Sprintf("user locked out by %v: %v was refused but changed the dataset", lo.edits, pr)})
				}
				wld.Close()
			}
		}
	}
	res.Samples = append(res.Samples, map[string]any{"rule_sets": len(sets), "probes": len(probes), "example_rules": sets[(a.Shard*13)%len(sets)], "example_probe": probes[(a.Shard*7)%len(probes)].A})
	return res
}
