package main

import "fmt"

func runSelftests() int {
	fmt.Println("selftest: (filled in as the runtime grows)")
	return 0
}
