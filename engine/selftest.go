package main

import (
	"fmt"
	"sort"
	"strings"

	"github.com/echovault/sugardb/verifrt"
)

var extraSelf []func()

// exploreFuncs runs a litmus program (threads over verifrt primitives) under the DFS explorer.
func exploreFuncs(mk func() ([]func(), func() string), bound int) (outcomes map[string]int, execs int, deadlocks, livelocks int) {
	outcomes = map[string]int{}
	var explore func(prefix []int)
	explore = func(prefix []int) {
		verifrt.BeginControlled()
		threads, outcome := mk()
		ch := &dfsChooser{prefix: prefix}
		ph := verifrt.RunPhase(ch, nil, threads...)
		verifrt.EndControlled()
		execs++
		k := outcome()
		if ph.Livelock {
			livelocks++
			k += "|LIVELOCK"
		} else if ph.Deadlock {
			deadlocks++
			k += "|DEADLOCK"
		}
		if ch.diverged != "" {
			k += "|DIVERGED"
		}
		outcomes[k]++
		pre := 0
		for i, p := range ch.points {
			if i >= len(prefix) {
				cost := pre
				if p.curEnabled {
					cost++
				}
				if bound < 0 || cost <= bound {
					for alt := 1; alt < p.n; alt++ {
						np := make([]int, i+1)
						for j := 0; j < i; j++ {
							np[j] = ch.points[j].chosen
						}
						np[i] = alt
						explore(np)
					}
				}
			}
			if p.chosen != 0 && p.curEnabled {
				pre++
			}
		}
	}
	explore(nil)
	return
}

func keysOf(m map[string]int) string {
	var ks []string
	for k := range m {
		ks = append(ks, k)
	}
	sort.Strings(ks)
	return strings.Join(ks, " ")
}

func runSelftests() int {
	fails := 0
	expect := func(name string, got, want string, execs int) {
		st := "ok"
		if got != want {
			st = "FAIL"
			fails++
		}
		fmt.Printf("selftest %-34s %-4s outcomes={%s} want={%s} executions=%d\n", name, st, got, want, execs)
	}
	// 1. lock-protected counter: exactly one outcome, several executions
	o, n, _, _ := exploreFuncs(func() ([]func(), func() string) {
		var m verifrt.Mutex
		x := 0
		t := func() { m.Lock(); v := x; verifrt.Yield(); x = v + 1; m.Unlock() }
		return []func(){t, t}, func() string { return fmt.Sprint(x) }
	}, -1)
	expect("mutex-protected counter", keysOf(o), "2", n)
	if n < 2 {
		fmt.Println("selftest FAIL: no interleaving explored")
		fails++
	}
	// 2. unprotected read-modify-write through atomics: lost update reachable
	o, n, _, _ = exploreFuncs(func() ([]func(), func() string) {
		var a verifrt.AtomicInt64
		t := func() { v := a.Load(); a.Store(v + 1) }
		return []func(){t, t}, func() string { return fmt.Sprint(a.Load()) }
	}, -1)
	// (the final Load runs outside controlled mode)
	expect("atomic load/store lost update", keysOf(o), "1 2", n)
	// 3. AB/BA lock order
	o, n, d, _ := exploreFuncs(func() ([]func(), func() string) {
		var a, b verifrt.Mutex
		return []func(){func() { a.Lock(); b.Lock(); b.Unlock(); a.Unlock() }, func() { b.Lock(); a.Lock(); a.Unlock(); b.Unlock() }}, func() string { return "done" }
	}, -1)
	expect("AB/BA deadlock", keysOf(o), "done done|DEADLOCK", n)
	_ = d
	// 4. RWMutex writer preference: recursive read lock with a writer in between deadlocks
	o, n, _, _ = exploreFuncs(func() ([]func(), func() string) {
		var m verifrt.RWMutex
		return []func(){func() { m.RLock(); m.RLock(); m.RUnlock(); m.RUnlock() }, func() { m.Lock(); m.Unlock() }}, func() string { return "done" }
	}, -1)
	expect("recursive RLock vs writer", keysOf(o), "done done|DEADLOCK", n)
	// 5. spin loop terminates when the flag is set by another thread, livelock when nobody sets it
	o, n, _, _ = exploreFuncs(func() ([]func(), func() string) {
		var f verifrt.AtomicBool
		return []func(){func() {
			for !f.Load() {
			}
		}, func() { f.Store(true) }}, func() string { return "done" }
	}, -1)
	expect("spin loop with setter", keysOf(o), "done", n)
	o, n, _, l := exploreFuncs(func() ([]func(), func() string) {
		var f verifrt.AtomicBool
		return []func(){func() {
			for !f.Load() {
			}
		}}, func() string { return "done" }
	}, -1)
	expect("spin loop without setter", keysOf(o), "done|LIVELOCK", n)
	_ = l
	// 6. unbuffered channel rendezvous and buffered channel
	o, n, _, _ = exploreFuncs(func() ([]func(), func() string) {
		ch := make(chan int)
		got := 0
		return []func(){func() { verifrt.BeforeSend(ch); ch <- 7; verifrt.AfterSend(ch) }, func() { verifrt.BeforeRecv(ch); got = <-ch; verifrt.AfterRecv(ch) }}, func() string { return fmt.Sprint(got) }
	}, -1)
	expect("unbuffered rendezvous", keysOf(o), "7", n)
	o, n, _, _ = exploreFuncs(func() ([]func(), func() string) {
		ch := make(chan int, 2)
		var got []int
		return []func(){func() { verifrt.BeforeSend(ch); ch <- 1; verifrt.AfterSend(ch) }, func() { verifrt.BeforeSend(ch); ch <- 2; verifrt.AfterSend(ch) },
				func() {
					for i := 0; i < 2; i++ {
						verifrt.BeforeRecv(ch)
						v := <-ch
						verifrt.AfterRecv(ch)
						got = append(got, v)
					}
				}},
			func() string { return fmt.Sprint(got) }
	}, -1)
	expect("buffered channel order", keysOf(o), "[1 2] [2 1]", n)
	// 7. WaitGroup + spawned goroutine
	o, n, _, _ = exploreFuncs(func() ([]func(), func() string) {
		var wg verifrt.WaitGroup
		var m verifrt.Mutex
		x := 0
		return []func(){func() {
			for i := 0; i < 2; i++ {
				wg.Add(1)
				verifrt.Go(func() { m.Lock(); x++; m.Unlock(); wg.Done() })
			}
			wg.Wait()
			x *= 10
		}}, func() string { return fmt.Sprint(x) }
	}, -1)
	expect("waitgroup + spawn", keysOf(o), "20", n)
	// 8. preemption bound 0 explores only non-preemptive schedules
	o0, n0, _, _ := exploreFuncs(func() ([]func(), func() string) {
		var a verifrt.AtomicInt64
		t := func() { v := a.Load(); a.Store(v + 1) }
		return []func(){t, t}, func() string { return fmt.Sprint(a.Load()) }
	}, 0)
	expect("bound 0 hides the lost update", keysOf(o0), "2", n0)
	for _, f := range extraSelf {
		f()
	}
	// 9. schedule replay determinism on the real implementation
	sc := &SchedScenario{Name: "replay", Setup: []Action{cmd("SET", "a", "5")}, Threads: [][]Action{{cmd("INCR", "a")}, {cmd("INCR", "a")}}, Bound: 2}
	r := exploreScenario(sc)
	if r.Err != "" || r.Diverged != "" {
		fmt.Println("selftest FAIL: INCR||INCR exploration:", r.Err, r.Diverged)
		fails++
	} else {
		var lost *SchedOutcome
		for k, o := range r.Outcomes {
			if _, ok := r.Serial[k]; !ok {
				lost = o
			}
		}
		fmt.Printf("selftest INCR||INCR: executions=%d outcomes=%d serial=%d max_points=%d\n", r.Executions, len(r.Outcomes), len(r.Serial), r.MaxPoints)
		if lost != nil {
			a1, _, _ := runSchedule(sc, lost.Choices, nil, false)
			a2, _, _ := runSchedule(sc, lost.Choices, nil, false)
			if a1.Key() != lost.Key() || a2.Key() != lost.Key() {
				fmt.Println("selftest FAIL: replaying a recorded schedule gave a different outcome")
				fails++
			} else {
				fmt.Println("selftest replay of recorded schedule: identical outcome twice:", lost.Key())
			}
		}
	}
	if fails > 0 {
		fmt.Printf("selftest: %d FAILED\n", fails)
		return 1
	}
	fmt.Println("selftest: all passed")
	return 0
}

func init() {
	extraSelf = append(extraSelf, func() {
		for _, d := range []struct {
			n string
			d Domains
		}{{"full", fullDomains}, {"small", smallDomains}, {"tiny", tinyDomains()}} {
			all := catalogActions(d.d, nil)
			w := catalogActions(d.d, func(e *CatEntry) bool { return !e.Read })
			fmt.Printf("catalogue %-5s: all=%d writes=%d reads=%d\n", d.n, len(all), len(w), len(all)-len(w))
		}
	})
}

func init() {
	extraSelf = append(extraSelf, func() {
		sc := &SchedScenario{Name: "dbg", Setup: []Action{cmdOn(0, "SUBSCRIBE", "c1")}, Threads: [][]Action{{cmdOn(0, "UNSUBSCRIBE", "c1")}, nil, {cmdOn(2, "PUBLISH", "c1", "m1")}}, Bound: 2}
		dbgDiverge = true
		r := exploreScenario(sc)
		dbgDiverge = false
		fmt.Println("dbg explore:", r.Executions, r.Diverged)
	})
}

func init() {
	extraSelf = append(extraSelf, func() {
		w, err := newWorld(InstCfg{})
		if err != nil {
			return
		}
		defer w.Close()
		o := w.Do(cmd("COMMAND", "LIST"))
		fmt.Printf("COMMAND LIST (%d): %v\n", len(o.V.Arr), o.V.Strs())
	})
}
