package main

import "fmt"

var extraSelf []func()

func runSelftests() int {
	for _, f := range extraSelf {
		f()
	}
	return 0
}

func init() {
	extraSelf = append(extraSelf, func() {
		for _, d := range []struct {
			n string
			d Domains
		}{{"full", fullDomains}, {"small", smallDomains}, {"tiny", tinyDomains()}} {
			all := catalogActions(d.d, nil)
			w := catalogActions(d.d, func(e *CatEntry) bool { return !e.Read })
			fmt.Printf("catalogue %-5s: all=%d writes=%d reads=%d\n", d.n, len(all), len(w), len(all)-len(w))
		}
	})
}
