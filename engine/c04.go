package main

import (
	"encoding/json"
	"fmt"
	"strconv"
	"strings"
	"time"

	"github.com/echovault/sugardb/verifrt"
)

// C04 — expiry: keys live exactly until their deadline, then are unobservable.
//
// SEQ search with the clock as an action.  Reference model (written from the
// property statement and the option tables of docs/docs/commands/generic/*):
// per key {present, string value | list, deadline}; a key whose deadline has
// passed is ABSENT in the reference.  For every transition:
//   - readers and existence-conditional writers on a dead key reply exactly what the same build replies for a key
//     that never existed; on a live key GET/STRLEN/LLEN/TYPE reply its value;
//   - TTL/PTTL/EXPIRETIME/PEXPIRETIME report the reference deadline (-1 none, -2 absent);
//   - SET [NX|XX] [EX|PX|EXAT|PXAT], EXPIRE-family with NX/XX/GT/LT, PERSIST, GETEX forms change the deadline per the documented tables;
//   - after every action (including clock advances and sampler ticks) every key alive in the reference exists with the
//     reference value and deadline; keys absent in the reference are absent or are expired leftovers.

type c04Check struct{}

func init() { register("C04", c04Check{}) }

func (c04Check) Describe() CheckInfo {
	return CheckInfo{
		Level: "model_checking",
		Rule: "explicit-state BFS over the real dispatcher under a virtual clock: alphabet = SET forms, EXPIRE/PEXPIRE/EXPIREAT/PEXPIREAT x {none,NX,XX,GT,LT}, PERSIST, GETEX forms, readers (GET, MGET, TYPE, TTL, PTTL, EXPIRETIME, PEXPIRETIME, STRLEN, LLEN), " +
			"existence-conditional writers (SET NX|XX, INCR, LPUSHX, RENAME, RPUSH), clock +1 ms / +5 s / +11 s, explicit sampler tick; configurations lazy-only and background sampler (policy x sample size). " +
			"Per-transition conformance to a reference deadline table; non-trivial = distinct (state, action).",
		Assumptions: []string{"TTL in seconds may be rounded down, up or to nearest (unspecified)", "whether SET without an expiry option on a LIVE volatile key keeps or clears the deadline is unspecified in the docs: either is accepted; inheriting after expiry is not"},
	}
}

type c04Args struct {
	Sched  []c05Scenario `json:",omitempty"` // scheduler facet: expired-but-present key under concurrent access
	Policy string
	Sample uint
	Shard  int
	Shards int
	Depth  int
}

func (c04Check) Units(tier string, seed int64) []Unit {
	var us []Unit
	add := func(policy string, sample uint, depth, shards int) {
		for i := 0; i < shards; i++ {
			b, _ := json.Marshal(c04Args{Policy: policy, Sample: sample, Shard: i, Shards: shards, Depth: depth})
			us = append(us, Unit{Name: fmt.Sprintf("%s-s%d-depth%d-shard%d", policy, sample, depth, i), Args: b})
		}
	}
	// scheduler facet: key `a` has expired but is still stored; readers (lazy removal), writers and the sampler race
	{
		var scns []c05Scenario
		cmds := [][]string{{"GET", "a"}, {"MGET", "a", "b"}, {"INCR", "a"}, {"SET", "a", "7"}, {"TTL", "a"}, {"EXPIRE", "a", "100"}, {"DEL", "a"}, {"SET", "a", "8", "NX"}}
		bound := 2
		if tier == "thorough" {
			bound = 3
		}
		for i := 0; i < len(cmds); i++ {
			for j := i; j < len(cmds); j++ {
				scns = append(scns, c05Scenario{Name: "expired-a: " + strings.Join(cmds[i], " ") + " || " + strings.Join(cmds[j], " "), Bound: bound, MaxExec: 60000,
					Threads: [][]Action{{cmd(cmds[i]...)}, {cmd(cmds[j]...)}}})
			}
			scns = append(scns, c05Scenario{Name: "expired-a: tick || " + strings.Join(cmds[i], " "), Bound: bound, MaxExec: 60000,
				Threads: [][]Action{{{K: "tick", N: 0}}, {cmd(cmds[i]...)}}})
		}
		scns = append(scns, c05Scenario{Name: "expired-a: tick || GET a || SET a 7", Bound: bound - 1, MaxExec: 60000,
			Threads: [][]Action{{{K: "tick", N: 0}}, {cmd("GET", "a")}, {cmd("SET", "a", "7")}}})
		for i := 0; i < len(scns); i += 6 {
			e := i + 6
			if e > len(scns) {
				e = len(scns)
			}
			b, _ := json.Marshal(c04Args{Sched: scns[i:e]})
			us = append(us, Unit{Name: fmt.Sprintf("sched-%d", i), Args: b})
		}
	}
	if tier == "thorough" {
		add("noeviction", 0, 4, 48)
		for _, p := range []string{"allkeys-lru", "allkeys-lfu", "volatile-lru", "volatile-lfu", "allkeys-random", "volatile-random"} {
			add(p, 1, 3, 8)
			add(p, 20, 3, 8)
		}
	} else {
		add("noeviction", 0, 3, 32)
		add("allkeys-lru", 20, 3, 16)
		add("volatile-lfu", 1, 2, 4)
	}
	return us
}

var c04Epoch = verifrt.Epoch.UnixMilli()

func c04Alphabet() []Action {
	at := func(sec int64) string { return strconv.FormatInt(c04Epoch/1000+sec, 10) }
	atMs := func(ms int64) string { return strconv.FormatInt(c04Epoch+ms, 10) }
	a := []Action{
		cmd("SET", "a", "v"), cmd("SET", "a", "w", "EX", "10"), cmd("SET", "a", "w", "PX", "3000"), cmd("SET", "a", "w", "EXAT", at(20)), cmd("SET", "a", "w", "PXAT", atMs(7000)),
		cmd("SET", "a", "n", "NX"), cmd("SET", "a", "x", "XX"), cmd("SET", "a", "n", "NX", "EX", "10"), cmd("SET", "a", "g", "GET"),
		cmd("PERSIST", "a"), cmd("GETEX", "a"), cmd("GETEX", "a", "PERSIST"), cmd("GETEX", "a", "EX", "10"), cmd("GETEX", "a", "PXAT", atMs(2000)),
		cmd("GET", "a"), cmd("MGET", "a", "l"), cmd("TYPE", "a"), cmd("TTL", "a"), cmd("PTTL", "a"), cmd("EXPIRETIME", "a"), cmd("PEXPIRETIME", "a"), cmd("STRLEN", "a"),
		cmd("INCR", "a"), cmd("RENAME", "a", "b"), cmd("RENAME", "l", "a"), cmd("DEL", "a"), cmd("MSET", "a", "m", "c1", "m", "c2", "m", "c3", "m"),
		cmd("RPUSH", "l", "x"), cmd("LPUSHX", "l", "y"), cmd("LLEN", "l"), cmd("EXPIRE", "l", "10"), cmd("TTL", "l"),
		adv(1), adv(5000), adv(11000), {K: "tick", N: 0},
	}
	for _, opt := range []string{"", "NX", "XX", "GT", "LT"} {
		mk := func(args ...string) Action {
			if opt != "" {
				args = append(args, opt)
			}
			return cmd(args...)
		}
		a = append(a, mk("EXPIRE", "a", "10"), mk("EXPIRE", "a", "4"), mk("PEXPIRE", "a", "30000"), mk("EXPIREAT", "a", at(8)), mk("PEXPIREAT", "a", atMs(600000)))
	}
	a = append(a, cmd("EXPIRE", "a", "-1"), cmd("EXPIREAT", "a", "1"))
	return a
}

type c04Key struct {
	Present bool
	Kind    string // string | list
	S       string
	L       []string
	Dl      int64 // deadline ms, 0 none
}

type c04Ref map[string]c04Key

func (r c04Ref) clone() c04Ref {
	o := c04Ref{}
	for k, v := range r {
		v.L = append([]string{}, v.L...)
		o[k] = v
	}
	return o
}

// refFromState: the reference is re-synchronised from the actual pre-state (per-transition conformance):
// keys whose deadline has passed are absent.
func c04RefOf(st *State) c04Ref {
	r := c04Ref{}
	for k, v := range st.Alpha[0] {
		if v.Exp != 0 && v.Exp < st.NowMs {
			continue
		}
		ck := c04Key{Present: true, Dl: v.Exp}
		switch v.Kind {
		case "list":
			ck.Kind, ck.L = "list", v.L
		default:
			ck.Kind, ck.S = "string", v.S
		}
		r[k] = ck
	}
	return r
}

type c04Expect struct {
	reply   func(o StepOut) string // "" = fine, else complaint
	post    c04Ref
	asMiss  bool // reply must equal the reply for a never-existing key
	anyDlOf []int64
	dlKey   string
}

func intReply(want ...int64) func(StepOut) string {
	return func(o StepOut) string {
		if o.V.K == ':' {
			for _, w := range want {
				if o.V.I == w {
					return ""
				}
			}
		}
		return fmt.Sprintf("expected integer %v, got %s", want, o.Brief())
	}
}

func strReply(want string) func(StepOut) string {
	return func(o StepOut) string {
		if (o.V.K == '+' || o.V.K == '$') && !o.V.Nul && o.V.S == want {
			return ""
		}
		return fmt.Sprintf("expected %q, got %s", want, o.Brief())
	}
}

func okReply(o StepOut) string {
	if o.V.K == '+' && strings.EqualFold(o.V.S, "OK") {
		return ""
	}
	return "expected OK, got " + o.Brief()
}

func nilReply(o StepOut) string {
	if o.V.Nul {
		return ""
	}
	return "expected nil, got " + o.Brief()
}

func errReply(o StepOut) string {
	if o.V.IsErr() {
		return ""
	}
	return "expected an error, got " + o.Brief()
}

// c04Step is the reference step function.  It returns nil when the reference does not define the command.
func c04Step(ref c04Ref, a Action, now int64) *c04Expect {
	post := ref.clone()
	e := &c04Expect{post: post}
	if a.K != "cmd" {
		// clock advance / tick: nothing changes except that keys may die (handled by the caller through `now`)
		return e
	}
	name := strings.ToUpper(a.A[0])
	key := ""
	if len(a.A) > 1 {
		key = a.A[1]
	}
	k, alive := ref[key]
	parseDl := func(unit string, v string) (int64, bool) {
		n, err := strconv.ParseInt(v, 10, 64)
		if err != nil {
			return 0, false
		}
		switch unit {
		case "EX":
			return now + n*1000, true
		case "PX":
			return now + n, true
		case "EXAT":
			return n * 1000, true
		case "PXAT":
			return n, true
		}
		return 0, false
	}
	switch name {
	case "SET":
		opts := a.A[3:]
		nx, xx, get := false, false, false
		var dl int64
		hasDl := false
		for i := 0; i < len(opts); i++ {
			switch strings.ToUpper(opts[i]) {
			case "NX":
				nx = true
			case "XX":
				xx = true
			case "GET":
				get = true
			case "EX", "PX", "EXAT", "PXAT":
				d, ok := parseDl(strings.ToUpper(opts[i]), opts[i+1])
				if !ok {
					return nil
				}
				dl, hasDl = d, true
				i++
			}
		}
		doSet := !(nx && alive) && !(xx && !alive)
		if alive && k.Kind != "string" {
			return nil
		}
		switch {
		case get && alive:
			e.reply = strReply(k.S)
		case get:
			e.reply = nilReply
		case doSet:
			e.reply = okReply
		default:
			// the docs do not say how a refused conditional SET replies: nil (Redis) or an error are both accepted
			e.reply = func(o StepOut) string {
				if o.V.Nul || o.V.IsErr() {
					return ""
				}
				return "expected nil or an error (write refused), got " + o.Brief()
			}
		}
		if doSet {
			nk := c04Key{Present: true, Kind: "string", S: a.A[2]}
			if hasDl {
				nk.Dl = dl
			} else if alive && k.Dl != 0 {
				e.anyDlOf, e.dlKey = []int64{0, k.Dl}, key // unspecified on a live volatile key
			}
			post[key] = nk
		}
	case "MSET":
		e.reply = okReply
		for i := 1; i+1 < len(a.A); i += 2 {
			kk, wasAlive := ref[a.A[i]]
			if wasAlive && kk.Kind != "string" {
				return nil
			}
			nk := c04Key{Present: true, Kind: "string", S: a.A[i+1]}
			if wasAlive && kk.Dl != 0 {
				nk.Dl = kk.Dl // keeping the deadline of a LIVE key is what the implementation documents nowhere; see anyDl below
				e.anyDlOf, e.dlKey = []int64{0, kk.Dl}, a.A[i]
			}
			post[a.A[i]] = nk
		}
	case "GET":
		if !alive {
			e.asMiss = true
		} else if k.Kind == "string" {
			e.reply = strReply(k.S)
		} else {
			return nil
		}
	case "STRLEN":
		if !alive {
			e.asMiss = true
		} else if k.Kind == "string" {
			e.reply = intReply(int64(len(k.S)))
		} else {
			return nil
		}
	case "LLEN":
		if !alive {
			e.asMiss = true
		} else if k.Kind == "list" {
			e.reply = intReply(int64(len(k.L)))
		} else {
			return nil
		}
	case "TYPE":
		if !alive {
			e.asMiss = true
		} else {
			return nil // spelling of type names is C01's business
		}
	case "MGET":
		if _, ok := ref["a"]; !ok {
			if _, ok2 := ref["l"]; !ok2 {
				e.asMiss = true
				break
			}
		}
		return nil
	case "TTL", "PTTL", "EXPIRETIME", "PEXPIRETIME":
		switch {
		case !alive:
			e.reply = intReply(-2)
		case k.Dl == 0:
			e.reply = intReply(-1)
		case name == "PTTL":
			e.reply = intReply(k.Dl - now)
		case name == "TTL":
			rem := k.Dl - now
			e.reply = intReply(rem/1000, (rem+999)/1000, (rem+500)/1000)
		case name == "EXPIRETIME":
			e.reply = intReply(k.Dl/1000, (k.Dl+999)/1000)
		default:
			e.reply = intReply(k.Dl)
		}
	case "EXPIRE", "PEXPIRE", "EXPIREAT", "PEXPIREAT":
		unit := map[string]string{"EXPIRE": "EX", "PEXPIRE": "PX", "EXPIREAT": "EXAT", "PEXPIREAT": "PXAT"}[name]
		nd, ok := parseDl(unit, a.A[2])
		if !ok {
			return nil
		}
		opt := ""
		if len(a.A) > 3 {
			opt = strings.ToUpper(a.A[3])
		}
		if !alive {
			e.reply = intReply(0)
			break
		}
		set := true
		switch opt {
		case "NX":
			set = k.Dl == 0
		case "XX":
			set = k.Dl != 0
		case "GT":
			set = k.Dl != 0 && nd > k.Dl // no deadline = infinite: never greater
		case "LT":
			set = k.Dl == 0 || nd < k.Dl
		}
		if k.Dl != 0 && nd == k.Dl && (opt == "GT" || opt == "LT") {
			// equal deadlines: the state cannot change; whether this counts as "set" is immaterial
			e.reply = intReply(0, 1)
			break
		}
		if set {
			if nd <= now {
				// a deadline in the past: the key dies at once (it may be deleted or left expired)
				delete(post, key)
				e.reply = intReply(1)
			} else {
				k.Dl = nd
				post[key] = k
				e.reply = intReply(1)
			}
		} else {
			e.reply = intReply(0)
		}
	case "PERSIST":
		if alive && k.Dl != 0 {
			k.Dl = 0
			post[key] = k
			e.reply = intReply(1)
		} else {
			e.reply = intReply(0)
		}
	case "GETEX":
		if !alive {
			e.asMiss = true
			break
		}
		if k.Kind != "string" {
			return nil
		}
		e.reply = strReply(k.S)
		if len(a.A) > 2 {
			o := strings.ToUpper(a.A[2])
			if o == "PERSIST" {
				k.Dl = 0
				post[key] = k
			} else if len(a.A) > 3 {
				d, ok := parseDl(o, a.A[3])
				if !ok {
					return nil
				}
				if d <= now {
					delete(post, key)
				} else {
					k.Dl = d
					post[key] = k
				}
			}
		}
	case "INCR":
		if !alive {
			post[key] = c04Key{Present: true, Kind: "string", S: "1"}
			e.reply = intReply(1)
		} else {
			return nil
		}
	case "RENAME":
		if !alive {
			e.asMiss = true
		} else {
			// value and deadline move together; whatever the destination held (value and deadline) is gone
			delete(post, key)
			post[a.A[2]] = k
			e.reply = okReply
		}
	case "DEL":
		if alive {
			delete(post, key)
			e.reply = intReply(1)
		} else {
			e.reply = intReply(0)
		}
	case "RPUSH":
		if !alive {
			post[key] = c04Key{Present: true, Kind: "list", L: []string{a.A[2]}}
			e.reply = intReply(1)
		} else if k.Kind == "list" {
			k.L = append(append([]string{}, k.L...), a.A[2])
			post[key] = k
			e.reply = intReply(int64(len(k.L)))
		} else {
			return nil
		}
	case "LPUSHX":
		if !alive {
			e.asMiss = true
		} else if k.Kind == "list" {
			k.L = append([]string{a.A[2]}, k.L...)
			post[key] = k
			e.reply = intReply(int64(len(k.L)))
		} else {
			return nil
		}
	default:
		return nil
	}
	return e
}

var c04Missing map[string]string // command -> reply on a server where the key never existed

func c04LoadMissing(alpha []Action) {
	if c04Missing != nil {
		return
	}
	c04Missing = map[string]string{}
	for _, a := range alpha {
		if a.K != "cmd" {
			continue
		}
		w, err := newWorld(InstCfg{})
		if err != nil {
			panic(err)
		}
		o := w.Do(a)
		w.Close()
		c04Missing[quoteArgs(a.A)] = o.Brief()
	}
}

func (c04Check) Run(u Unit, w *Worker) UnitResult {
	var a c04Args
	json.Unmarshal(u.Args, &a)
	res := UnitResult{Stats: map[string]int64{}}
	if len(a.Sched) > 0 {
		for _, s := range a.Sched {
			if !w.Case(s.Name) {
				continue
			}
			sc := &SchedScenario{Name: s.Name, Setup: []Action{cmd("SET", "a", "5", "PX", "5"), cmd("SET", "b", "5"), {K: "adv", N: 10}}, Threads: s.Threads, Bound: s.Bound, MaxExec: s.MaxExec}
			judgeScenario("C04", sc, &res)
		}
		return res
	}
	alpha := c04Alphabet()
	c04LoadMissing(alpha)
	cfg := InstCfg{Policy: a.Policy, EvictionSample: a.Sample}
	if a.Policy != "noeviction" {
		cfg.EvictionIntvMs = 2000
		cfg.MaxMemory = 1 << 30 // far away: only the expiry sampler is under test here
	}
	cfgName := a.Policy
	if a.Policy != "noeviction" {
		cfgName = fmt.Sprintf("sampler(%s,sample=%d)", a.Policy, a.Sample)
	}
	spec := &SeqSpec{Prop: "C04", Cfg: cfg, Depth: a.Depth, Deadline: 20 * time.Minute,
		Alphabet: func(pre *State, depth int) []Action { return alpha }}
	spec.Check = func(path []Action, pre *State, act Action, out StepOut, post *State) []Finding {
		var fs []Finding
		db := 0
		abs := act.String()
		if act.K == "cmd" {
			abs = abstractCmdKeys(pre, db, act.A, map[string]bool{"a": true, "b": true, "l": true})
		}
		sigCfg := ""
		if a.Policy != "noeviction" {
			sigCfg = "|sampler"
		}
		add := func(kind, detail string) {
			fs = append(fs, Finding{Prop: "C04", Kind: kind, Sig: kind + "|" + abs + sigCfg,
				Detail: fmt.Sprintf("[%s] after [%s] at t+%dms: %s -> %s: %s", cfgName, pathString(path), pre.NowMs-c04Epoch, act, out.Brief(), detail)})
		}
		if out.Panic != "" {
			add("panic", "panicked: "+firstLine(out.Panic)+" at "+panicSite(out.Panic))
			return fs
		}
		if post == nil {
			return fs
		}
		ref := c04RefOf(pre)
		exp := c04Step(ref, act, pre.NowMs)
		if exp == nil {
			res.Stats["undefined_by_reference"]++
			return nil
		}
		res.Stats["conformance_checks"]++
		if act.K == "cmd" {
			if exp.asMiss {
				if want := c04Missing[quoteArgs(act.A)]; out.Brief() != want {
					add("dead-key-visible", fmt.Sprintf("the key's deadline has passed (or it never existed); a server where it never existed replies %s", want))
				}
			} else if exp.reply != nil {
				if c := exp.reply(out); c != "" {
					add("reply", c)
				}
			}
		}
		// post-state conformance: every key alive in the reference post-state exists with value and deadline
		now := post.NowMs
		for k, want := range exp.post {
			if want.Dl != 0 && want.Dl < now {
				continue // dies by the clock advance
			}
			got, ok := post.Alpha[0][k]
			if !ok {
				add("live-key-removed", fmt.Sprintf("key %s (deadline %s) must still exist", k, dlStr(want.Dl, now)))
				continue
			}
			if exp.dlKey == k && len(exp.anyDlOf) > 0 {
				okDl := false
				for _, d := range exp.anyDlOf {
					if got.Exp == d {
						okDl = true
					}
				}
				if !okDl {
					add("deadline", fmt.Sprintf("key %s has deadline %s, expected one of %v", k, dlStr(got.Exp, now), exp.anyDlOf))
				}
			} else if got.Exp != want.Dl {
				add("deadline", fmt.Sprintf("key %s has deadline %s, reference says %s", k, dlStr(got.Exp, now), dlStr(want.Dl, now)))
			}
			switch want.Kind {
			case "string":
				if got.S != want.S && !(got.Kind != "string" && numericEq(got.S, want.S)) {
					add("value", fmt.Sprintf("key %s holds %s, reference says %q", k, got, want.S))
				}
			case "list":
				if strings.Join(got.L, "\x00") != strings.Join(want.L, "\x00") {
					add("value", fmt.Sprintf("key %s holds %s, reference says %q", k, got, want.L))
				}
			}
		}
		// keys absent in the reference are absent, or expired leftovers
		for k, got := range post.Alpha[0] {
			if _, ok := exp.post[k]; ok {
				continue
			}
			if got.Exp != 0 && got.Exp < now {
				continue
			}
			if w, ok := exp.post[k]; ok && w.Dl != 0 && w.Dl < now {
				continue
			}
			add("dead-key-alive", fmt.Sprintf("key %s is absent in the reference but exists as %s (deadline %s)", k, got, dlStr(got.Exp, now)))
		}
		return fs
	}
	runSeq(spec, nil, func(i int) bool { return i%a.Shards == a.Shard }, w, &res)
	res.Samples = append(res.Samples, map[string]any{"config": cfgName, "alphabet": len(alpha), "depth": a.Depth, "example": alpha[(a.Shard*7)%len(alpha)].String()})
	return res
}

func dlStr(dl, now int64) string {
	if dl == 0 {
		return "none"
	}
	return fmt.Sprintf("now%+dms", dl-now)
}

func numericEq(a, b string) bool {
	x, e1 := strconv.ParseFloat(a, 64)
	y, e2 := strconv.ParseFloat(b, 64)
	return e1 == nil && e2 == nil && x == y
}
