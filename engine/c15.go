package main

import (
	"fmt"
	"strings"
)

// C15: list commands against a reference sequence.

func init() {
	register("C15", familyCheck{&familySpec{Prop: "C15", Kinds: []string{"list"}, Ref: refList,
		// the most negative integer as a pop count (it has no magnitude)
		ExtraCmd: func() []Action {
			const m = "-9223372036854775808"
			return []Action{cmd("LPOP", "l", m), cmd("RPOP", "l", m), cmd("LPOP", "l2", m), cmd("RPOP", "l2", m), cmd("LPOP", "x", m), cmd("RPOP", "s", m)}
		},
		Deep: []Action{cmd("LRANGE", "l", "0", "-1"), cmd("RPUSH", "l", "z"), cmd("LPUSH", "l", "y"), cmd("RPOP", "l"), cmd("LPOP", "l", "2"), cmd("RPOP", "l", "2"), cmd("LMOVE", "l", "l2", "RIGHT", "LEFT"), cmd("LMOVE", "l2", "l", "LEFT", "RIGHT"), cmd("LSET", "l", "0", "s"), cmd("LREM", "l", "-1", "a"), cmd("LTRIM", "l", "1", "-1"), cmd("LINDEX", "l", "-1"), cmd("LLEN", "l2"), cmd("RPUSH", "l2", "w")},
		Title: "refList (a Go slice: push/pop at both ends, index normalisation with clamping, LSET, inclusive LTRIM, LREM by count and direction, LMOVE as pop+push)"}})
}

func errExp(why string) *refExp {
	return &refExp{reply: []func(StepOut) bool{rErr()}, desc: "an error (" + why + ") and an unchanged dataset"}
}

// normIdx: negative counts from the tail.
func normIdx(i, n int) int {
	if i < 0 {
		return n + i
	}
	return i
}

// clampRange returns the inclusive [s,e] window of a list of length n, ok=false when empty.
func clampRange(s, e, n int) (int, int, bool) {
	s, e = normIdx(s, n), normIdx(e, n)
	if s < 0 {
		s = 0
	}
	if e >= n {
		e = n - 1
	}
	if n == 0 || s > e || s >= n {
		return 0, 0, false
	}
	return s, e, true
}

// refList wraps refList1: the order of argument validation and key lookup is not specified, so a command with invalid
// arguments on a missing key may also answer as for a miss (nothing may change either way).
func refList(db map[string]AVal, a []string, now int64) *refExp {
	e := refList1(db, a, now)
	if e == nil || len(a) < 2 {
		return e
	}
	if _, exists := aliveVal(db, a[1], now); !exists && e.post == nil && len(e.reply) == 1 && strings.HasPrefix(e.desc, "an error") {
		e.reply = append(e.reply, rNil(), rEmptyArr(), rInt(0), rOK())
		e.desc += " (or the reply of a miss)"
	}
	return e
}

func refList1(db map[string]AVal, a []string, now int64) *refExp {
	name := strings.ToUpper(a[0])
	if len(a) < 2 {
		return errExp("wrong number of arguments")
	}
	key := a[1]
	v, exists := aliveVal(db, key, now)
	wrong := exists && v.Kind != "list"
	lst := append([]string{}, v.L...)
	put := func(k string, l []string) map[string]AVal {
		p := cloneDB(db)
		old := p[k]
		p[k] = AVal{Kind: "list", L: l, Exp: old.Exp}
		return p
	}
	arr := func(l []string) *refExp {
		return &refExp{reply: []func(StepOut) bool{rArr(l, false)}, desc: fmt.Sprintf("the array %q", l)}
	}
	intE := func(n int, post map[string]AVal) *refExp {
		return &refExp{reply: []func(StepOut) bool{rInt(int64(n))}, desc: fmt.Sprintf("the integer %d", n), post: post}
	}
	switch name {
	case "LPUSH", "RPUSH", "LPUSHX", "RPUSHX":
		if len(a) < 3 {
			return errExp("wrong number of arguments")
		}
		if wrong {
			return errExp("not a list")
		}
		if !exists && strings.HasSuffix(name, "X") {
			// X variants only act on existing lists: 0 (Redis) or an error, nothing created
			return &refExp{reply: []func(StepOut) bool{rInt(0), rErr()}, desc: "0 or an error, and no list created"}
		}
		block := append(append([]string{}, a[2:]...), lst...) // LPUSH of several elements as one block ("prepends the values")
		for _, e := range a[2:] {
			if name[0] == 'L' {
				lst = append([]string{e}, lst...)
			} else {
				lst = append(lst, e)
			}
		}
		if name[0] == 'L' {
			return &refExp{reply: []func(StepOut) bool{rInt(int64(len(lst))), rOK()}, desc: fmt.Sprintf("the new length %d (or OK)", len(lst)), post: put(key, lst),
				postAlt: []map[string]AVal{put(key, block)}}
		}
		// the reply is the new length (Redis); the documentation of the embedded API says OK for the X variants
		return &refExp{reply: []func(StepOut) bool{rInt(int64(len(lst))), rOK()}, desc: fmt.Sprintf("the new length %d (or OK)", len(lst)), post: put(key, lst)}
	case "LPOP", "RPOP":
		if len(a) > 3 {
			return errExp("wrong number of arguments")
		}
		cnt, hasCnt := 1, len(a) == 3
		if hasCnt {
			c, ok := atoi(a[2])
			if !ok {
				return errExp("count is not an integer")
			}
			if c < 0 && -c < 0 {
				return nil // the most negative integer has no magnitude: not judged beyond "no panic, an error changes nothing"
			}
			if c < 0 {
				// undocumented: an error (Redis) or the magnitude (the handler's stated intent) are both accepted
				pos := refList1(db, []string{a[0], a[1], fmt.Sprint(-c)}, now)
				if pos != nil {
					pos.reply = append(pos.reply, rErr())
					pos.desc += " or an error"
					if pos.post != nil {
						pos.postAlt = append(pos.postAlt, db)
					}
				}
				return pos
			}
			cnt = c
		}
		if wrong {
			return errExp("not a list")
		}
		if !exists {
			return &refExp{reply: []func(StepOut) bool{rNil(), rEmptyArr()}, desc: "nil"}
		}
		if cnt > len(lst) {
			cnt = len(lst)
		}
		var popped, rest []string
		if name == "LPOP" {
			popped, rest = lst[:cnt], lst[cnt:]
		} else {
			for i := 0; i < cnt; i++ {
				popped = append(popped, lst[len(lst)-1-i])
			}
			rest = lst[:len(lst)-cnt]
		}
		if !hasCnt {
			if len(popped) == 0 {
				return &refExp{reply: []func(StepOut) bool{rNil()}, desc: "nil (empty list)"}
			}
			return &refExp{reply: []func(StepOut) bool{rStr(popped[0])}, desc: fmt.Sprintf("the element %q", popped[0]), post: put(key, rest)}
		}
		e := arr(popped)
		if len(popped) == 0 {
			e.reply = append(e.reply, rNil())
		}
		e.post = put(key, rest)
		return e
	case "LLEN":
		if len(a) != 2 {
			return errExp("wrong number of arguments")
		}
		if wrong {
			return errExp("not a list")
		}
		return intE(len(lst), nil)
	case "LRANGE":
		if len(a) != 4 {
			return errExp("wrong number of arguments")
		}
		s, ok1 := atoi(a[2])
		e, ok2 := atoi(a[3])
		if !ok1 || !ok2 {
			return errExp("indices are not integers")
		}
		if wrong {
			return errExp("not a list")
		}
		s, e, ok := clampRange(s, e, len(lst))
		if !ok {
			return arr(nil)
		}
		return arr(lst[s : e+1])
	case "LINDEX":
		if len(a) != 3 {
			return errExp("wrong number of arguments")
		}
		i, ok := atoi(a[2])
		if !ok {
			return errExp("index is not an integer")
		}
		if wrong {
			return errExp("not a list")
		}
		i = normIdx(i, len(lst))
		if i < 0 || i >= len(lst) {
			return &refExp{reply: []func(StepOut) bool{rNil()}, desc: "nil (index out of range)"}
		}
		return &refExp{reply: []func(StepOut) bool{rStr(lst[i])}, desc: fmt.Sprintf("the element %q", lst[i])}
	case "LSET":
		if len(a) != 4 {
			return errExp("wrong number of arguments")
		}
		i, ok := atoi(a[2])
		if !ok {
			return errExp("index is not an integer")
		}
		if wrong {
			return errExp("not a list")
		}
		if !exists {
			return errExp("no such key")
		}
		i = normIdx(i, len(lst))
		if i < 0 || i >= len(lst) {
			return errExp("index out of range")
		}
		lst[i] = a[3]
		return &refExp{reply: []func(StepOut) bool{rOK()}, desc: "OK", post: put(key, lst)}
	case "LTRIM":
		if len(a) != 4 {
			return errExp("wrong number of arguments")
		}
		s, ok1 := atoi(a[2])
		e, ok2 := atoi(a[3])
		if !ok1 || !ok2 {
			return errExp("indices are not integers")
		}
		if wrong {
			return errExp("not a list")
		}
		if !exists {
			return &refExp{reply: []func(StepOut) bool{rOK(), rErr()}, desc: "OK (or an error) and no key created"}
		}
		s, e, ok := clampRange(s, e, len(lst))
		var kept []string
		if ok {
			kept = lst[s : e+1]
		}
		return &refExp{reply: []func(StepOut) bool{rOK()}, desc: "OK", post: put(key, kept)}
	case "LREM":
		if len(a) != 4 {
			return errExp("wrong number of arguments")
		}
		c, ok := atoi(a[2])
		if !ok {
			return errExp("count is not an integer")
		}
		if wrong {
			return errExp("not a list")
		}
		if !exists {
			return &refExp{reply: []func(StepOut) bool{rInt(0), rErr()}, desc: "0 (or an error) and no key created"}
		}
		removed := 0
		var out []string
		if c >= 0 {
			for _, x := range lst {
				if x == a[3] && (c == 0 || removed < c) {
					removed++
					continue
				}
				out = append(out, x)
			}
		} else {
			for i := len(lst) - 1; i >= 0; i-- {
				if lst[i] == a[3] && removed < -c {
					removed++
					continue
				}
				out = append([]string{lst[i]}, out...)
			}
		}
		// the reply is the number removed (Redis); the embedded API documents OK
		return &refExp{reply: []func(StepOut) bool{rInt(int64(removed)), rOK()}, desc: fmt.Sprintf("%d removed (or OK)", removed), post: put(key, out)}
	case "LMOVE":
		if len(a) != 5 {
			return errExp("wrong number of arguments")
		}
		from, to := strings.ToUpper(a[3]), strings.ToUpper(a[4])
		if (from != "LEFT" && from != "RIGHT") || (to != "LEFT" && to != "RIGHT") {
			return errExp("direction is not LEFT or RIGHT")
		}
		dv, dexists := aliveVal(db, a[2], now)
		if wrong || (dexists && dv.Kind != "list") {
			return errExp("source or destination is not a list")
		}
		if !exists || len(lst) == 0 {
			return &refExp{reply: []func(StepOut) bool{rNil(), rErr()}, desc: "nil (or an error) and nothing created"}
		}

		var el string
		if from == "LEFT" {
			el, lst = lst[0], lst[1:]
		} else {
			el, lst = lst[len(lst)-1], lst[:len(lst)-1]
		}
		p := put(key, lst)
		dst := append([]string{}, p[a[2]].L...)
		if to == "LEFT" {
			dst = append([]string{el}, dst...)
		} else {
			dst = append(dst, el)
		}
		old := p[a[2]]
		p[a[2]] = AVal{Kind: "list", L: dst, Exp: old.Exp}
		e := &refExp{reply: []func(StepOut) bool{rStr(el), rOK()}, desc: fmt.Sprintf("the moved element %q (or OK)", el), post: p}
		if !dexists {
			// "move element from one list to the other": a destination that does not exist may be created or refused
			e.reply = append(e.reply, rErr())
			e.postAlt = append(e.postAlt, db)
			e.desc += " (or an error and no change, the destination being absent)"
		}
		return e
	}
	return nil
}
