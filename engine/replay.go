package main

import (
	"encoding/json"
	"fmt"
	"os"

	"github.com/echovault/sugardb/verifrt"
)

// replayMain re-executes a recorded SEQ violation without the explorer and
// prints every step's reply and the dataset before/after the last action.
func replayMain(args []string) int {
	if len(args) < 1 {
		fmt.Fprintln(os.Stderr, "usage: vengine replay <file>")
		return 2
	}
	b, err := os.ReadFile(args[0])
	if err != nil {
		fmt.Fprintln(os.Stderr, err)
		return 2
	}
	var f struct {
		Property  string          `json:"property"`
		Signature string          `json:"signature"`
		Detail    string          `json:"detail"`
		Replay    json.RawMessage `json:"replay"`
	}
	if err := json.Unmarshal(b, &f); err != nil {
		fmt.Fprintln(os.Stderr, err)
		return 2
	}
	fmt.Printf("property %s\nsignature %s\nrecorded: %s\n", f.Property, f.Signature, f.Detail)
	var cr struct {
		Cfg     InstCfg  `json:"cfg"`
		History []Action `json:"history"`
		Cut     *int     `json:"cut"`
		Torn    int      `json:"torn"`
		Dropped []int    `json:"dropped"`
	}
	if err := json.Unmarshal(f.Replay, &cr); err == nil && cr.Cut != nil && len(cr.History) > 0 {
		return replayCrash(cr.Cfg, cr.History, *cr.Cut, cr.Torn, cr.Dropped)
	}
	var r SeqReplay
	if err := json.Unmarshal(f.Replay, &r); err != nil || (len(r.Path) == 0 && r.Last.K == "") {
		fmt.Println("(no sequential replay recorded for this kind of finding; see the 'replay' field)")
		return 0
	}
	w, outs, err := buildWorld(r.Cfg, r.Path)
	if err != nil {
		fmt.Fprintln(os.Stderr, err)
		return 2
	}
	for i, a := range r.Path {
		fmt.Printf("  %-40s -> %s\n", a, outs[i].Brief())
	}
	pre := w.State()
	fmt.Printf("dataset before: %s (memUsed=%d)\n", pre.Alpha, pre.Dump.MemUsed)
	out := w.Do(r.Last)
	fmt.Printf("  %-40s -> %s\n", r.Last, out.Brief())
	if !w.Dead() {
		post := w.State()
		fmt.Printf("dataset after:  %s (memUsed=%d)\n", post.Alpha, post.Dump.MemUsed)
	}
	return 0
}

func selftestMain(args []string) int {
	return runSelftests()
}

// replayCrash re-executes a history on the journalling file system, builds the recorded crash image,
// recovers it with a fresh server and prints what it finds, then does the durable-again continuation.
func replayCrash(cfg InstCfg, hist []Action, cut, torn int, dropped []int) int {
	run, wld, err := runHistory(cfg, nil, hist)
	if err != nil {
		fmt.Fprintln(os.Stderr, err)
		return 2
	}
	wld.Close()
	for i, a := range hist {
		if i < len(run.Outs) {
			fmt.Printf("  %-40s -> %s\n", a, run.Outs[i].Brief())
		}
	}
	fmt.Printf("journal (%d entries), crash before entry %d (torn bytes %d, dropped %v):\n", len(run.Journal), cut, torn, dropped)
	for i, op := range run.Journal {
		mark := "  "
		if i == cut {
			mark = "->"
		}
		d := ""
		if op.Kind == verifrt.FSWrite {
			d = fmt.Sprintf(" off=%d %q", op.Off, firstN(string(op.Data), 70))
		}
		if op.Kind == verifrt.FSMark {
			d = " " + op.Tag
		}
		fmt.Printf("  %s %3d %-8s %s%s\n", mark, i, op.Kind, op.Path, d)
	}
	dm := map[int]bool{}
	for _, d := range dropped {
		dm[d] = true
	}
	img := run.build(cut, torn, dm)
	for p, b := range img.Files() {
		fmt.Printf("image file %s (%d bytes): %q\n", p, len(b), firstN(string(b), 300))
	}
	rec := recoverImage(cfg, img)
	switch {
	case rec.Panic != "" || rec.Hang:
		fmt.Printf("recovery PANIC/HANG: %s\n", firstN(rec.Panic, 800))
		return 0
	case rec.StartErr != "":
		fmt.Printf("recovery failed: %s\n", rec.StartErr)
		return 0
	}
	fmt.Printf("recovered dataset: %s\n", rec.Alpha)
	for j, st := range run.States {
		if st != nil {
			fmt.Printf("  dataset after %d commands: %s\n", j+1, st.Alpha)
		}
	}
	o := rec.World.Do(cmd("SET", "zz", "after"))
	fmt.Printf("  SET zz after -> %s\n", o.Brief())
	o2 := rec.World.Do(Action{K: "restart"})
	fmt.Printf("  restart -> %s\n", o2.Brief())
	if !rec.World.Dead() {
		fmt.Printf("dataset after recovery + write + clean restart: %s\n", rec.World.State().Alpha)
	}
	return 0
}
