package main

import (
	"encoding/json"
	"fmt"
	"os"
)

// replayMain re-executes a recorded SEQ violation without the explorer and
// prints every step's reply and the dataset before/after the last action.
func replayMain(args []string) int {
	if len(args) < 1 {
		fmt.Fprintln(os.Stderr, "usage: vengine replay <file>")
		return 2
	}
	b, err := os.ReadFile(args[0])
	if err != nil {
		fmt.Fprintln(os.Stderr, err)
		return 2
	}
	var f struct {
		Property  string          `json:"property"`
		Signature string          `json:"signature"`
		Detail    string          `json:"detail"`
		Replay    json.RawMessage `json:"replay"`
	}
	if err := json.Unmarshal(b, &f); err != nil {
		fmt.Fprintln(os.Stderr, err)
		return 2
	}
	fmt.Printf("property %s\nsignature %s\nrecorded: %s\n", f.Property, f.Signature, f.Detail)
	var r SeqReplay
	if err := json.Unmarshal(f.Replay, &r); err != nil || (len(r.Path) == 0 && r.Last.K == "") {
		fmt.Println("(no sequential replay recorded for this kind of finding; see the 'replay' field)")
		return 0
	}
	w, outs, err := buildWorld(r.Cfg, r.Path)
	if err != nil {
		fmt.Fprintln(os.Stderr, err)
		return 2
	}
	for i, a := range r.Path {
		fmt.Printf("  %-40s -> %s\n", a, outs[i].Brief())
	}
	pre := w.State()
	fmt.Printf("dataset before: %s (memUsed=%d)\n", pre.Alpha, pre.Dump.MemUsed)
	out := w.Do(r.Last)
	fmt.Printf("  %-40s -> %s\n", r.Last, out.Brief())
	if !w.Dead() {
		post := w.State()
		fmt.Printf("dataset after:  %s (memUsed=%d)\n", post.Alpha, post.Dump.MemUsed)
	}
	return 0
}

func selftestMain(args []string) int {
	return runSelftests()
}
