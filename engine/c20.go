package main

import (
	"encoding/json"
	"fmt"
	"strings"
	"time"
)

// C20 — logical databases are isolated namespaces.
//
// SEQ non-interference check with two client connections and the embedded
// caller.  Reference = one selected-database index per caller (SELECT moves the
// issuer only; SWAPDB exchanges the indices of all open client connections);
// the data semantics are the implementation's own.  Per transition by a caller
// whose reference index is i:
//   (1) every database j != i is untouched: dataset, deadlines, volatile-key index, LRU/LFU bookkeeping
//       (FLUSHALL: everything empty; SWAPDB/SELECT: no data change at all)
//   (2) the connection table equals the reference indices
//   (3) (reply, new content of i) is a function of (content of i, command) — it must not depend on any other database
//   (4) persistence: from every reached state a clean restart with AOF restore (resp. snapshot + restart with
//       snapshot restore) must reproduce every key in the database it was in.

type c20Check struct{}

func init() { register("C20", c20Check{}) }

func (c20Check) Describe() CheckInfo {
	return CheckInfo{
		Level: "model_checking",
		Rule: "explicit-state BFS over the real dispatcher: callers c0,c1 (connections) and the embedded API; alphabet SELECT {0,1,12}, one write/read per value kind, EXPIRE, DEL, FLUSHDB, FLUSHALL, SWAPDB; " +
			"configurations: no persistence / AOF(always)+restart / snapshot+restart. Non-trivial = distinct (state, action); states = distinct concrete dumps incl. connection table.",
		Assumptions: []string{"what a connection opened after a SWAPDB sees is unspecified and not compared", "database indices 0,1,12; depth bound per tier"},
	}
}

type c20Args struct {
	Root   int
	Mode   string // mem | aof | snap
	Shard  int
	Shards int
	Depth  int
}

func (c20Check) Units(tier string, seed int64) []Unit {
	var us []Unit
	add := func(mode string, depth, shards int) {
		for root := range c20Roots() {
			for sh := 0; sh < shards; sh++ {
				b, _ := json.Marshal(c20Args{Root: root, Mode: mode, Shard: sh, Shards: shards, Depth: depth})
				us = append(us, Unit{Name: fmt.Sprintf("%s-root%d-depth%d-shard%d", mode, root, depth, sh), Args: b})
			}
		}
	}
	if tier == "thorough" {
		add("mem", 5, 30)
		add("aof", 5, 30)
		add("snap", 5, 30)
	} else {
		add("mem", 4, 30)
		add("aof", 4, 30)
		add("snap", 4, 30)
	}
	for i := range c20SchedScenarios(tier) {
		b, _ := json.Marshal(c20Args{Root: i, Mode: "sched"})
		us = append(us, Unit{Name: fmt.Sprintf("sched-%d", i), Args: b})
	}
	return us
}

// c20Roots: the empty server, and a server where the same key names live in several databases
// (so that anything keyed by name only, instead of by (database, name), becomes visible).
func c20Roots() [][]Action {
	return [][]Action{
		nil,
		{cmdOn(1, "SELECT", "1"), {K: "embsel", N: 12}, cmdOn(0, "SET", "k1", "zero"), cmdOn(1, "SET", "k1", "one"), emb("SET", "k1", "twelve"),
			cmdOn(0, "SADD", "t", "a"), cmdOn(1, "SADD", "t", "b"), cmdOn(1, "EXPIRE", "t", "100")},
	}
}

func c20Alphabet(mode string) []Action {
	a := []Action{
		cmdOn(0, "SELECT", "1"), cmdOn(0, "SELECT", "12"), cmdOn(0, "SELECT", "0"), cmdOn(1, "SELECT", "1"),
		{K: "embsel", N: 1}, {K: "embsel", N: 12},
		cmdOn(0, "SET", "k1", "from-c0"), cmdOn(1, "SET", "k1", "from-c1"), emb("SET", "k1", "from-emb"),
		cmdOn(0, "RPUSH", "l", "a"), cmdOn(0, "SADD", "t", "a"), cmdOn(1, "ZADD", "z", "1", "a"), emb("HSET", "h", "f1", "v"),
		cmdOn(0, "EXPIRE", "k1", "100"), cmdOn(0, "DEL", "k1"), cmdOn(1, "INCR", "n"),
		cmdOn(0, "FLUSHDB"), cmdOn(1, "FLUSHDB"), cmdOn(0, "FLUSHALL"), cmdOn(0, "SWAPDB", "0", "1"), cmdOn(1, "SWAPDB", "1", "12"),
		cmdOn(0, "GET", "k1"), cmdOn(1, "GET", "k1"), emb("GET", "k1"), cmdOn(0, "TYPE", "l"), cmdOn(1, "TTL", "k1"), cmdOn(0, "RANDOMKEY"),
	}
	a = append(a, adv(200000))
	switch mode {
	case "aof":
		a = append(a, Action{K: "restart"}, Action{K: "rewrite"})
	case "snap":
		a = append(a, Action{K: "snap-restart"})
	}
	return a
}

func c20Cfg(mode string) InstCfg {
	switch mode {
	case "aof":
		return InstCfg{Conns: 2, DataDir: "/data", AOFSync: "always", RestoreAOF: true}
	case "snap":
		return InstCfg{Conns: 2, DataDir: "/data", RestoreSnapshot: true}
	}
	return InstCfg{Conns: 2}
}

type c20Ref struct {
	conn [2]int
	emb  int
}

// refAfter replays the path on the reference indices.
func c20RefOf(path []Action) c20Ref {
	var r c20Ref
	for _, a := range path {
		r = r.step(a)
	}
	return r
}

func (r c20Ref) step(a Action) c20Ref {
	switch a.K {
	case "embsel":
		r.emb = int(a.N)
	case "restart", "snap-restart":
		r.conn = [2]int{0, 0} // new connections start in database 0; the embedded selection is per instance too
		r.emb = 0
	case "cmd":
		switch strings.ToUpper(a.A[0]) {
		case "SELECT":
			var n int
			fmt.Sscanf(a.A[1], "%d", &n)
			r.conn[a.C] = n
		case "SWAPDB":
			var x, y int
			fmt.Sscanf(a.A[1], "%d", &x)
			fmt.Sscanf(a.A[2], "%d", &y)
			for i := range r.conn {
				if r.conn[i] == x {
					r.conn[i] = y
				} else if r.conn[i] == y {
					r.conn[i] = x
				}
			}
		}
	}
	return r
}

func dbString(a Alpha, db int) string {
	m := a[db]
	var sb strings.Builder
	for _, k := range sortedKeys(m) {
		sb.WriteString(fmt.Sprintf("%q=%s; ", k, m[k]))
	}
	return sb.String()
}

// bookkeeping renders the volatile-key index and the eviction heaps of one database;
// a database that does not exist yet and one that exists with empty structures are the same thing.
func bookkeeping(st *State, db int) string {
	b, _ := json.Marshal([]any{st.Dump.KeysWithExpiry[db], st.Dump.LFU[db], st.Dump.LRU[db]})
	s := string(b)
	if len(st.Dump.KeysWithExpiry[db]) == 0 && !strings.Contains(s, `"key"`) {
		return "empty"
	}
	return s
}

// placement renders which keys live in which database (values are C02/C03's business).
func placement(a Alpha) Alpha {
	out := Alpha{}
	for db, m := range a {
		out[db] = map[string]AVal{}
		for k := range m {
			out[db][k] = AVal{Kind: "key"}
		}
	}
	return out
}

func allDBs(a, b *State) []int {
	seen := map[int]bool{}
	var out []int
	for _, st := range []*State{a, b} {
		for db := range st.Alpha {
			if !seen[db] {
				seen[db] = true
				out = append(out, db)
			}
		}
		for db := range st.Dump.KeysWithExpiry {
			if !seen[db] {
				seen[db] = true
				out = append(out, db)
			}
		}
	}
	return out
}

// c20SchedScenarios: two clients that have selected different databases write at the same time with the append-only log
// on; every interleaving (preemption-bounded) must leave a log from which a restart restores what some serial order of
// the same commands restores - each key in the database it was written to.
func c20SchedScenarios(tier string) []*SchedScenario {
	bound := 2
	if tier == "thorough" {
		bound = 3
	}
	cfg := InstCfg{DataDir: "/data", AOFSync: "always"}
	return []*SchedScenario{
		{Name: "db0 SET a || db1 SET b, then restart from the log", Cfg: cfg, Setup: []Action{cmdOn(1, "SELECT", "1"), cmdOn(0, "SET", "seed", "0")},
			Threads: [][]Action{{cmdOn(0, "SET", "a", "zero")}, {cmdOn(1, "SET", "b", "one")}}, Bound: bound, MaxExec: 60000, Restorable: true, RestoreAOF: true},
		{Name: "db0 SET a ; SET c || db1 SET b ; SET d, then restart from the log", Cfg: cfg, Setup: []Action{cmdOn(1, "SELECT", "1"), cmdOn(1, "SET", "seed", "1")},
			Threads: [][]Action{{cmdOn(0, "SET", "a", "zero"), cmdOn(0, "SET", "c", "zero")}, {cmdOn(1, "SET", "b", "one"), cmdOn(1, "SET", "d", "one")}}, Bound: bound, MaxExec: 60000, Restorable: true, RestoreAOF: true},
		{Name: "db12 RPUSH l || db0 DEL l || db1 INCR n, then restart from the log", Cfg: cfg, Setup: []Action{cmdOn(0, "SELECT", "12"), cmdOn(2, "SELECT", "1"), cmdOn(1, "RPUSH", "l", "x")},
			Threads: [][]Action{{cmdOn(0, "RPUSH", "l", "y")}, {cmdOn(1, "DEL", "l")}, {cmdOn(2, "INCR", "n")}}, Bound: bound - 1, MaxExec: 60000, Restorable: true, RestoreAOF: true},
		// the two commands that touch the connection table and the set of databases from opposite ends
		{Name: "SWAPDB 0 1 || SELECT 1 ; SET k", Cfg: InstCfg{}, Setup: []Action{cmdOn(0, "SET", "seed", "0")},
			Threads: [][]Action{{cmdOn(0, "SWAPDB", "0", "1")}, {cmdOn(1, "SELECT", "1"), cmdOn(1, "SET", "k", "v")}}, Bound: bound, MaxExec: 60000},
		{Name: "SWAPDB 0 12 || SELECT 12 || SELECT 0", Cfg: InstCfg{}, Setup: []Action{cmdOn(0, "SET", "seed", "0")},
			Threads: [][]Action{{cmdOn(0, "SWAPDB", "0", "12")}, {cmdOn(1, "SELECT", "12")}, {cmdOn(2, "SELECT", "0")}}, Bound: bound - 1, MaxExec: 60000},
	}
}

func (c20Check) Run(u Unit, w *Worker) UnitResult {
	var a c20Args
	json.Unmarshal(u.Args, &a)
	res := UnitResult{Stats: map[string]int64{}}
	if a.Mode == "sched" {
		sc := c20SchedScenarios(u.Tier)[a.Root]
		if w.Case(sc.Name) {
			judgeScenario("C20", sc, &res)
		}
		return res
	}
	alpha := c20Alphabet(a.Mode)
	cfg := c20Cfg(a.Mode)
	fn := map[string]string{} // (content of i, action) -> reply + new content of i
	fnWitness := map[string]string{}
	spec := &SeqSpec{Prop: "C20", Cfg: cfg, Depth: a.Depth, Deadline: 15 * time.Minute,
		Alphabet: func(pre *State, depth int) []Action { return alpha }}
	spec.Check = func(path []Action, pre *State, act Action, out StepOut, post *State) []Finding {
		var fs []Finding
		ref := c20RefOf(append(append([]Action{}, c20Roots()[a.Root]...), path[len(c20Roots()[a.Root]):]...))
		caller, sel := "", 0
		switch act.K {
		case "cmd":
			caller, sel = fmt.Sprintf("c%d", act.C), ref.conn[act.C]
		case "emb", "embsel":
			caller, sel = "emb", ref.emb
		}
		name := act.K
		if len(act.A) > 0 {
			name = strings.ToUpper(act.A[0])
		}
		sigBase := fmt.Sprintf("%s@%s/db%d", name, caller, sel)
		if act.K == "restart" || act.K == "snap-restart" {
			sigBase = act.K
		}
		if out.Panic != "" {
			return []Finding{{Prop: "C20", Kind: "panic", Sig: "panic|" + sigBase + "|" + panicSite(out.Panic),
				Detail: fmt.Sprintf("%s (caller %s, database %d selected) panicked: %s", act, caller, sel, firstLine(out.Panic))}}
		}
		if post == nil {
			return nil
		}
		newRef := ref.step(act)
		// (2) connection table
		for i := 0; i < 2; i++ {
			if got := connDB(post, i); got != newRef.conn[i] {
				fs = append(fs, Finding{Prop: "C20", Kind: "conn", Sig: "conn-db|" + sigBase,
					Detail: fmt.Sprintf("after %s connection c%d uses database %d, reference says %d", act, i, got, newRef.conn[i])})
			}
		}
		if post.Dump.Embedded.Database != newRef.emb {
			fs = append(fs, Finding{Prop: "C20", Kind: "conn", Sig: "emb-db|" + sigBase,
				Detail: fmt.Sprintf("after %s the embedded caller uses database %d, reference says %d", act, post.Dump.Embedded.Database, newRef.emb)})
		}
		switch {
		case act.K == "restart" || act.K == "snap-restart":
			// every key alive before the restart must still be in its database afterwards.  Keys that come back
			// (an expired or lazily deleted key resurrected by replaying a relative EXPIRE) are C02/C04's business:
			// a misplaced key always shows up here as a key missing from where it was.
			alive := placement(pre.Alpha.DropExpired(pre.NowMs))
			d := alphaDiff(alive, placement(post.Alpha), func(db int, k string) bool {
				_, wasAlive := alive[db][k]
				return !wasAlive
			})
			if len(d) > 0 {
				shape := restartShape(d)
				fs = append(fs, Finding{Prop: "C20", Kind: "restart", Sig: act.K + "|" + shape,
					Detail: fmt.Sprintf("after %s the keys are not where they were: %s (history: %s)", act.K, strings.Join(d, "; "), pathString(path))})
			}
		case name == "FLUSHALL":
			for db, m := range post.Alpha {
				if len(m) > 0 {
					fs = append(fs, Finding{Prop: "C20", Kind: "state", Sig: "flushall-left-keys", Detail: fmt.Sprintf("FLUSHALL left keys in database %d: %s", db, dbString(post.Alpha, db))})
				}
			}
		default:
			dataCmd := act.K == "emb" || (act.K == "cmd" && name != "SELECT" && name != "SWAPDB")
			for _, db := range allDBs(pre, post) {
				if dataCmd && db == sel {
					continue
				}
				if dbString(pre.Alpha, db) != dbString(post.Alpha, db) {
					fs = append(fs, Finding{Prop: "C20", Kind: "state", Sig: "other-db-changed|" + sigBase,
						Detail: fmt.Sprintf("%s by %s with database %d selected changed database %d: %q -> %q", act, caller, sel, db, dbString(pre.Alpha, db), dbString(post.Alpha, db))})
				} else if bookkeeping(pre, db) != bookkeeping(post, db) {
					fs = append(fs, Finding{Prop: "C20", Kind: "state", Sig: "other-db-bookkeeping|" + sigBase,
						Detail: fmt.Sprintf("%s by %s with database %d selected changed the expiry/eviction bookkeeping of database %d", act, caller, sel, db)})
				}
			}
			if dataCmd && name != "RANDOMKEY" {
				// (3) functional dependence on the selected database only
				k := fmt.Sprintf("%d\x00", pre.NowMs) + dbString(pre.Alpha, sel) + "\x00" + act.K + quoteArgs(act.A)
				v := out.Brief() + "\x00" + dbString(post.Alpha, sel)
				if old, ok := fn[k]; ok && old != v {
					fs = append(fs, Finding{Prop: "C20", Kind: "reply", Sig: "depends-on-other-db|" + name + "@" + caller,
						Detail: fmt.Sprintf("%s with database content %q gave %q after [%s] but %q after [%s]", act, dbString(pre.Alpha, sel),
							strings.ReplaceAll(v, "\x00", " / "), pathString(path), strings.ReplaceAll(old, "\x00", " / "), fnWitness[k])})
				} else if !ok {
					fn[k] = v
					fnWitness[k] = pathString(path)
				}
				res.Stats["functional_checks"]++
			}
		}
		return fs
	}
	runSeq(spec, c20Roots()[a.Root], func(i int) bool { return i%a.Shards == a.Shard }, w, &res)
	if a.Shard < len(alpha) {
		res.Samples = append(res.Samples, map[string]any{"mode": a.Mode, "first_action": alpha[a.Shard%len(alpha)].String(), "alphabet": len(alpha), "depth": a.Depth})
	}
	return res
}

// restartShape abstracts a restart diff: which kinds of movement happened.
func restartShape(d []string) string {
	kinds := map[string]bool{}
	for _, s := range d {
		var db int
		fmt.Sscanf(s, "db%d:", &db)
		switch {
		case strings.Contains(s, " removed "):
			kinds[fmt.Sprintf("lost-from-db%d", db)] = true
		case strings.Contains(s, " created "):
			kinds[fmt.Sprintf("appeared-in-db%d", db)] = true
		default:
			kinds[fmt.Sprintf("changed-in-db%d", db)] = true
		}
	}
	return strings.Join(sortedKeys(kinds), ",")
}

// panicSite extracts the first repository frame of a panic stack.
func panicSite(p string) string {
	lines := strings.Split(p, "\n")
	for _, l := range lines {
		l = strings.TrimSpace(l)
		if strings.HasPrefix(l, "github.com/echovault/sugardb/") && !strings.Contains(l, "verifrt") && !strings.Contains(l, "Verif") {
			if i := strings.Index(l, "("); i > 0 {
				l = l[:i]
			}
			return strings.TrimPrefix(l, "github.com/echovault/sugardb/")
		}
	}
	return firstLine(p)
}
