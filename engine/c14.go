package main

import (
	"math"
	"fmt"
	"sort"
	"strconv"
	"strings"
)

// C14: hash commands against a reference field -> value map.

func init() {
	register("C14", familyCheck{&familySpec{Prop: "C14", Kinds: []string{"hash"}, Ref: refHash, Random: hashRandom, Sig: hashSig, LooseDeadlines: true,
		// a field holding the integer 0 (written, counted down to, or created by a zero increment) and its readers
		ExtraCmd: func() []Action {
			return []Action{cmd("HSET", "h", "f1", "0"), cmd("HINCRBY", "h", "nf", "0"), cmd("HINCRBY", "h", "f2", "-2"), cmd("HSET", "x", "f1", "0", "f2", "-0"), cmd("HSTRLEN", "x", "f1"), cmd("HINCRBYFLOAT", "h", "f3", "-1.5")}
		},
		Deep: []Action{cmd("HGETALL", "h"), cmd("HSET", "h", "f1", "0"), cmd("HSET", "h", "f1", "w"), cmd("HSET", "h", "nf", "1"), cmd("HDEL", "h", "f1"), cmd("HDEL", "h", "f1", "f2", "f3"), cmd("HINCRBY", "h", "f2", "5"), cmd("HINCRBYFLOAT", "h", "f3", "1.5"), cmd("HINCRBY", "h", "nf", "abc"), cmd("HSETNX", "h", "f1", "n"), cmd("HLEN", "h"), cmd("HKEYS", "h"), cmd("HVALS", "h"), cmd("HRANDFIELD", "h", "-3"), cmd("HSTRLEN", "h", "f1")},
		Title: "refHash (a Go map field -> value text: HSET/HSETNX/HDEL, integer and float increments, exact readers, sized random selections)"}})
}

func hval(x string) string {
	if len(x) >= 2 && x[1] == ':' {
		return x[2:]
	}
	return x
}

// rPairs matches a flat [f v f v ...] array, a nested [[f v] ...] array or a map reply against want, in any order.
func rPairs(want map[string]string) func(StepOut) bool {
	return func(o StepOut) bool {
		if o.V.K != '*' && o.V.K != '%' {
			return false
		}
		got := map[string]string{}
		arr := o.V.Arr
		if len(arr) > 0 && len(arr[0].Arr) == 2 {
			for _, p := range arr {
				if len(p.Arr) != 2 {
					return false
				}
				got[p.Arr[0].Text()] = p.Arr[1].Text()
			}
			if len(got) != len(arr) {
				return false
			}
		} else {
			if len(arr)%2 != 0 {
				return false
			}
			for i := 0; i < len(arr); i += 2 {
				if arr[i].Nul || arr[i+1].Nul {
					return false
				}
				got[arr[i].Text()] = arr[i+1].Text()
			}
			if len(got) != len(arr)/2 {
				return false
			}
		}
		if len(got) != len(want) {
			return false
		}
		for f, v := range want {
			if g, ok := got[f]; !ok || g != v {
				return false
			}
		}
		return true
	}
}

func refHash(db map[string]AVal, a []string, now int64) *refExp {
	e := refHash1(db, a, now)
	if e == nil || len(a) < 2 {
		return e
	}
	// validation order is unspecified: invalid arguments on a missing key may answer as a miss
	if _, exists := aliveVal(db, a[1], now); !exists && e.post == nil && len(e.reply) == 1 && strings.HasPrefix(e.desc, "an error") {
		e.reply = append(e.reply, rNil(), rEmptyArr(), rInt(0))
		e.desc += " (or the reply of a miss)"
	}
	return e
}

func refHash1(db map[string]AVal, a []string, now int64) *refExp {
	name := strings.ToUpper(a[0])
	if len(a) < 2 {
		return errExp("wrong number of arguments")
	}
	key := a[1]
	v, exists := aliveVal(db, key, now)
	if exists && v.Kind != "hash" && (name == "HSET" || name == "HSETNX") && len(a) >= 4 && len(a)%2 == 0 {
		// The property only demands that READING another type fails; the repository's tests pin that HSET replaces a
		// value of another type by the written hash.  Both behaviours are accepted.
		p := cloneDB(db)
		delete(p, key)
		e := refHash1(p, a, now)
		if e != nil && e.post != nil {
			nv := e.post[key]
			nv.Exp = v.Exp
			e.post[key] = nv
			e.reply = append(e.reply, rErr())
			e.postAlt = append(e.postAlt, db)
			e.desc += " (or an error and no change, the key holding another type)"
		}
		return e
	}
	if exists && v.Kind != "hash" {
		if len(a) < 3 && name != "HVALS" && name != "HKEYS" && name != "HLEN" && name != "HGETALL" && name != "HRANDFIELD" {
			return errExp("wrong number of arguments")
		}
		return errExp("not a hash")
	}
	h := map[string]string{}
	for f, x := range v.H {
		h[f] = hval(x)
	}
	for _, x := range h {
		// a field holding a non-finite or huge float (reachable through HINCRBYFLOAT inf / nan / 1e308) has no specified
		// rendering: commands on such a hash are not judged (an error must still change nothing)
		if fv, err := strconv.ParseFloat(x, 64); err == nil && (math.IsInf(fv, 0) || math.IsNaN(fv) || math.Abs(fv) > 1e15) {
			return nil
		}
	}
	put := func(m map[string]string) map[string]AVal {
		p := cloneDB(db)
		hh := map[string]string{}
		for f, x := range m {
			hh[f] = "s:" + x
		}
		p[key] = AVal{Kind: "hash", H: hh, Exp: p[key].Exp}
		return p
	}
	intE := func(n int64, post map[string]AVal) *refExp {
		return &refExp{reply: []func(StepOut) bool{rInt(n)}, desc: fmt.Sprintf("the integer %d", n), post: post}
	}
	fields := func() []string { return sortedKeys(h) }
	switch name {
	case "HSET", "HSETNX":
		if len(a) < 4 || len(a)%2 != 0 {
			return errExp("wrong number of arguments")
		}
		added, written := 0, 0
		touched := map[string]bool{}
		for i := 2; i < len(a); i += 2 {
			_, had := h[a[i]]
			if name == "HSETNX" && had {
				continue
			}
			if !had {
				added++
			}
			if !touched[a[i]] {
				written++
			}
			touched[a[i]] = true
			h[a[i]] = a[i+1]
		}
		// the count of new fields (Redis) or of fields written ("noOfUpdatedFields" in the documentation)
		e := &refExp{reply: []func(StepOut) bool{rInt(int64(added)), rInt(int64(written)), rInt(int64((len(a) - 2) / 2))},
			desc: fmt.Sprintf("the number of fields added (%d) or written (%d)", added, written)}
		if name == "HSETNX" {
			e.reply = []func(StepOut) bool{rInt(int64(added))}
			e.desc = fmt.Sprintf("the number of fields set (%d)", added)
		}
		if written > 0 || !exists {
			e.post = put(h)
			if name == "HSETNX" {
				// a field named twice in one HSETNX: first or last pair may win
				h2 := map[string]string{}
				for f, x := range h {
					h2[f] = x
				}
				for i := 2; i < len(a); i += 2 {
					if touched[a[i]] {
						h2[a[i]] = a[i+1]
					}
				}
				e.postAlt = append(e.postAlt, put(h2))
			}
			if !exists && written == 0 {
				e.postAlt = append(e.postAlt, db)
			}
		}
		return e
	case "HGET", "HMGET", "HSTRLEN":
		if len(a) < 3 {
			return errExp("wrong number of arguments")
		}
		var w []string
		for _, f := range a[2:] {
			x, ok := h[f]
			switch {
			case name == "HSTRLEN" && ok:
				w = append(w, strconv.Itoa(len(x)))
			case name == "HSTRLEN":
				w = append(w, "0")
			case ok:
				w = append(w, x)
			default:
				w = append(w, "\x00nil")
			}
		}
		e := &refExp{reply: []func(StepOut) bool{rArr(w, false)}, desc: fmt.Sprintf("the array %q", w)}
		if len(w) == 1 { // one field: the bare value is accepted too
			if w[0] == "\x00nil" {
				e.reply = append(e.reply, rNil())
			} else if name == "HSTRLEN" {
				n, _ := strconv.Atoi(w[0])
				e.reply = append(e.reply, rInt(int64(n)))
			} else {
				e.reply = append(e.reply, rStr(w[0]))
			}
		}
		if !exists {
			e.reply = append(e.reply, rNil(), rEmptyArr())
		}
		return e
	case "HVALS", "HKEYS":
		if len(a) != 2 {
			return errExp("wrong number of arguments")
		}
		var w []string
		for _, f := range fields() {
			if name == "HKEYS" {
				w = append(w, f)
			} else {
				w = append(w, h[f])
			}
		}
		e := &refExp{reply: []func(StepOut) bool{rArr(w, true)}, desc: fmt.Sprintf("the array %q in any order", w)}
		if !exists {
			e.reply = append(e.reply, rNil())
		}
		return e
	case "HLEN":
		if len(a) != 2 {
			return errExp("wrong number of arguments")
		}
		return intE(int64(len(h)), nil)
	case "HEXISTS":
		if len(a) != 3 {
			return errExp("wrong number of arguments")
		}
		if _, ok := h[a[2]]; ok {
			return intE(1, nil)
		}
		return intE(0, nil)
	case "HGETALL":
		if len(a) != 2 {
			return errExp("wrong number of arguments")
		}
		e := &refExp{reply: []func(StepOut) bool{rPairs(h)}, desc: fmt.Sprintf("the field/value pairs %v in any order", h)}
		if !exists {
			e.reply = append(e.reply, rNil())
		}
		return e
	case "HDEL":
		if len(a) < 3 {
			return errExp("wrong number of arguments")
		}
		n := 0
		for _, f := range a[2:] {
			if _, ok := h[f]; ok {
				delete(h, f)
				n++
			}
		}
		if n == 0 {
			return intE(0, nil)
		}
		return intE(int64(n), put(h))
	case "HINCRBY":
		if len(a) != 4 {
			return errExp("wrong number of arguments")
		}
		inc, err := strconv.ParseInt(a[3], 10, 64)
		if err != nil {
			return errExp("increment is not an integer")
		}
		cur := int64(0)
		if x, ok := h[a[2]]; ok {
			c, err := strconv.ParseInt(x, 10, 64)
			if err != nil {
				if fv, ferr := strconv.ParseFloat(x, 64); ferr == nil {
					// a fractional field: "add to numeric fields" - the sum or a refusal are both accepted
					r := fv + float64(inc)
					h[a[2]] = strconv.FormatFloat(r, 'f', -1, 64)
					return &refExp{reply: []func(StepOut) bool{rNum(r), rErr()}, desc: fmt.Sprintf("the sum %v or an error", r), post: put(h), postAlt: []map[string]AVal{db}}
				}
				return errExp("field value is not a number")
			}
			cur = c
		}
		if (inc > 0 && cur > (1<<63-1)-inc) || (inc < 0 && cur < -(1<<63-1)-1-inc) {
			return errExp("overflow")
		}
		nonCanon := nonCanonicalNumber(h[a[2]])
		h[a[2]] = strconv.FormatInt(cur+inc, 10)
		e := &refExp{reply: []func(StepOut) bool{rNum(float64(cur + inc))}, desc: fmt.Sprintf("the new value %d", cur+inc), post: put(h)}
		if nonCanon {
			// a value such as "007" is kept as written (a string): counting from it or refusing it are both accepted
			e.reply = append(e.reply, rErr())
			e.postAlt = append(e.postAlt, db)
		}
		return e
	case "HINCRBYFLOAT":
		if len(a) != 4 {
			return errExp("wrong number of arguments")
		}
		inc, err := strconv.ParseFloat(a[3], 64)
		if err != nil {
			return errExp("increment is not a number")
		}
		if math.IsInf(inc, 0) || math.IsNaN(inc) || math.Abs(inc) > 1e300 {
			return nil // non-finite or overflowing increments are not specified (only: an error must change nothing)
		}
		cur := 0.0
		if x, ok := h[a[2]]; ok {
			c, err := strconv.ParseFloat(x, 64)
			if err != nil {
				return errExp("field value is not a number")
			}
			cur = c
		}
		r := cur + inc
		nonCanon := nonCanonicalNumber(h[a[2]])
		h[a[2]] = strconv.FormatFloat(r, 'f', -1, 64)
		e := &refExp{reply: []func(StepOut) bool{rNum(r)}, desc: fmt.Sprintf("the new value %v", r), post: put(h)}
		if nonCanon {
			e.reply = append(e.reply, rErr())
			e.postAlt = append(e.postAlt, db)
		}
		h[a[2]] = strconv.FormatFloat(r, 'g', -1, 64)
		e.postAlt = append(e.postAlt, put(h))
		return e
	case "HRANDFIELD":
		if len(a) > 4 {
			return errExp("wrong number of arguments")
		}
		if len(a) >= 3 {
			if _, ok := atoi(a[2]); !ok {
				return errExp("count is not an integer")
			}
		}
		if len(a) == 4 && !strings.EqualFold(a[3], "WITHVALUES") {
			return errExp("unknown option")
		}
		return &refExp{random: true}
	}
	return nil
}

// hashRandom judges HRANDFIELD: a correctly sized selection of current fields, distinct when the count is positive,
// with their values on request; the dataset is unchanged.
func hashRandom(pre map[string]AVal, a []string, o StepOut, post map[string]AVal) string {
	if dbKey(normText(normEmpty(pre))) != dbKey(normText(normEmpty(post))) {
		return "HRANDFIELD changed the dataset"
	}
	if o.PErr != "" || o.Empty {
		return "malformed or missing reply"
	}
	if o.V.IsErr() {
		return "error reply for a valid selection request"
	}
	h := map[string]string{}
	for f, x := range pre[a[1]].H {
		h[f] = hval(x)
	}
	hasCnt := len(a) >= 3
	cnt := 1
	if hasCnt {
		cnt, _ = atoi(a[2])
	}
	withValues := len(a) == 4
	var fs, vs []string
	switch {
	case o.V.Nul && len(o.V.Arr) == 0:
	case o.V.K == '*' || o.V.K == '%':
		arr := o.V.Arr
		if withValues {
			if len(arr) > 0 && len(arr[0].Arr) == 2 {
				for _, p := range arr {
					fs, vs = append(fs, p.Arr[0].Text()), append(vs, p.Arr[1].Text())
				}
			} else {
				if len(arr)%2 != 0 {
					return "WITHVALUES reply of odd length"
				}
				for i := 0; i < len(arr); i += 2 {
					fs, vs = append(fs, arr[i].Text()), append(vs, arr[i+1].Text())
				}
			}
		} else {
			fs = o.V.Strs()
		}
	case !hasCnt:
		fs = []string{o.V.Text()}
	default:
		return "the reply is not an array"
	}
	seen := map[string]bool{}
	for i, f := range fs {
		x, ok := h[f]
		if !ok {
			return fmt.Sprintf("%q is not a current field", f)
		}
		if withValues && vs[i] != x {
			return fmt.Sprintf("field %q reported with value %q, stored %q", f, vs[i], x)
		}
		if seen[f] && cnt > 0 {
			return "repeated field in a selection with a positive count"
		}
		seen[f] = true
	}
	want := cnt
	if cnt < 0 {
		want = -cnt
	}
	capped := want
	if capped > len(h) {
		capped = len(h)
	}
	if cnt >= 0 {
		want = capped
	} else if len(h) == 0 {
		want = 0
	}
	// negative count: |count| fields with repeats allowed; an implementation that caps at the size is tolerated only
	// when it is not distinguishable from a correctly sized one
	if len(fs) != want {
		return fmt.Sprintf("selection of %d fields for count %d over %d fields, expected %d", len(fs), cnt, len(h), want)
	}
	return ""
}

func nonCanonicalNumber(s string) bool {
	if s == "" {
		return false
	}
	if i, err := strconv.ParseInt(s, 10, 64); err == nil {
		return strconv.FormatInt(i, 10) != s
	}
	if f, err := strconv.ParseFloat(s, 64); err == nil {
		return strconv.FormatFloat(f, 'f', -1, 64) != s && strconv.FormatFloat(f, 'g', -1, 64) != s
	}
	return false
}

// hashSig groups divergences with the root cause "a numeric-looking value is stored as a number and re-rendered".
func hashSig(db map[string]AVal, a []string, kind string, now int64) string {
	name := strings.ToUpper(a[0])
	if name != "HSET" && name != "HSETNX" {
		return ""
	}
	var bad []string
	for i := 3; i < len(a); i += 2 {
		if nonCanonicalNumber(a[i]) {
			bad = append(bad, a[i])
		}
	}
	if len(bad) == 0 {
		return ""
	}
	sort.Strings(bad)
	return kind + "|" + name + " with a numeric-looking value that is not in canonical form (stored as a number, read back re-rendered)"
}
