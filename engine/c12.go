package main

import (
	"encoding/json"
	"fmt"
	"strings"
	"time"
)

// C12 — wire protocol: one well-formed reply per command, no crash on any input.
//
// WIRE driver: an in-memory net.Conn served by the REAL connection loop; Read returns exactly the segment the
// harness supplies (so segmentation is enumerated, not an accident of TCP); everything the server writes is judged
// by an independent strict RESP2/RESP3 parser.  Facets (bounded-exhaustive each):
//   args  every registered command (COMMAND LIST at run time) x arity 0..N x hostile argument alphabet, on keys of every
//         kind, RESP2 and after HELLO 3: no panic, exactly one complete well-formed reply (one confirmation per channel
//         for the subscribe family), and a PING on a second connection still answers
//   bytes stored values/members/fields with CR, LF, NUL, "" through every reader: the reply decodes to the stored bytes
//   seg   streams of 1..3 commands: ALL cuts of the byte stream into <= 3 segments, pipelining in one segment, bulk
//         strings of 8191/8192/8193/16384 bytes: the concatenated output equals the one-command-per-write replies
//   junk  every proper prefix of a command and every single-byte substitution from {* $ \r : - 9}: the server stays up

type c12Check struct{}

func init() { register("C12", c12Check{}) }

func (c12Check) Describe() CheckInfo {
	return CheckInfo{
		Level: "exploration",
		Rule: "bounded-exhaustive enumeration of inputs through the real read loop: (args) all registered commands x arity <= 2 over a 13-value hostile alphabet + arity 3 over 6 values (thorough: arity 3 full, arity 4 reduced), in RESP2 and RESP3; " +
			"(bytes) 5 hostile values x every reader; (seg) every segmentation of each 1..3-command stream into <= 3 segments + large bulks; (junk) every prefix and single-byte corruption of sample commands. " +
			"A case is non-trivial when distinct by (command, argument vector / cut positions); outcomes are distinct reply shapes.",
		Assumptions: []string{"reply VALUES are the business of C01/C14-C17; here only framing, count and liveness are judged",
			"byte streams are bounded (<= 3 commands, <= 3 segments, <= 16 KiB bulks)"},
	}
}

type c12Args struct {
	Facet  string
	Proto  int
	Shard  int
	Shards int
	Arity3 string // reduced | full
	Arity4 bool
}

var c12Hostile = []string{"", "a", "0", "-1", "1", "3", "99999999999999999999", "1.5", "x\r\ny", "\x00", "*", "NX", "WITHSCORES", "LIMIT", "[a"}
var c12Reduced = []string{"", "a", "0", "-1", "x\r\ny", "LIMIT", "[a"}

func c12ArgClass(s string) string {
	switch s {
	case "":
		return "empty"
	case "a", "*":
		return "key"
	case "0", "1", "3":
		return "int"
	case "-1":
		return "neg"
	case "99999999999999999999":
		return "huge"
	case "1.5":
		return "float"
	case "x\r\ny":
		return "crlf"
	case "\x00":
		return "nul"
	}
	return "kw"
}

// keys named after alphabet values, one per kind, so that handlers get past their type checks
func c12Seed() []Action {
	return []Action{
		cmd("SET", "a", "str"), cmd("RPUSH", "0", "x", "y", "z"), cmd("HSET", "1", "a", "1", "0", "v"), cmd("SADD", "-1", "a", "0", "1"),
		cmd("ZADD", "1.5", "1", "a", "2", "0", "3", "1"), cmd("SET", "*", "7"), cmd("RPUSH", "LIMIT", "a"), cmd("SADD", "NX", "a"), cmd("ZADD", "WITHSCORES", "1", "a"),
	}
}

func (c12Check) Units(tier string, seed int64) []Unit {
	var us []Unit
	add := func(a c12Args, name string) {
		b, _ := json.Marshal(a)
		us = append(us, Unit{Name: name, Args: b})
	}
	shards := 24
	for _, proto := range []int{2, 3} {
		for s := 0; s < shards; s++ {
			a := c12Args{Facet: "args", Proto: proto, Shard: s, Shards: shards, Arity3: "reduced"}
			if tier == "thorough" {
				a.Arity3, a.Arity4 = "full", true
			}
			add(a, fmt.Sprintf("args-resp%d-shard%d", proto, s))
		}
	}
	for s := 0; s < 16; s++ {
		add(c12Args{Facet: "catalog", Proto: 2, Shard: s, Shards: 16}, fmt.Sprintf("catalog-shard%d", s))
	}
	add(c12Args{Facet: "bytes", Proto: 2}, "bytes-resp2")
	add(c12Args{Facet: "bytes", Proto: 3}, "bytes-resp3")
	for s := 0; s < 8; s++ {
		add(c12Args{Facet: "seg", Shard: s, Shards: 8}, fmt.Sprintf("seg-shard%d", s))
		if s == 0 {
			add(c12Args{Facet: "stall"}, "stalled-connection")
		}
	}
	add(c12Args{Facet: "junk"}, "junk")
	return us
}

func c12Commands() [][]string {
	w, err := newWorld(InstCfg{})
	if err != nil {
		panic(err)
	}
	defer w.Close()
	o := w.Do(cmd("COMMAND", "LIST"))
	var out [][]string
	parents := map[string]bool{}
	for _, n := range o.V.Strs() {
		f := strings.Fields(n)
		out = append(out, f)
		if len(f) > 1 && !parents[f[0]] {
			// the bare parent of a sub-command family (ACL, COMMAND, PUBSUB ...) is a command line too
			parents[f[0]] = true
			out = append(out, f[:1])
		}
	}
	if len(out) < 100 {
		panic("COMMAND LIST too short: " + o.Brief())
	}
	return out
}

func product(alpha []string, n int) [][]string {
	out := [][]string{{}}
	for i := 0; i < n; i++ {
		var next [][]string
		for _, p := range out {
			for _, a := range alpha {
				next = append(next, append(append([]string{}, p...), a))
			}
		}
		out = next
	}
	return out
}

var subscribeFamily = map[string]bool{"SUBSCRIBE": true, "PSUBSCRIBE": true, "UNSUBSCRIBE": true, "PUNSUBSCRIBE": true}

func (c12Check) Run(u Unit, w *Worker) UnitResult {
	var a c12Args
	json.Unmarshal(u.Args, &a)
	res := UnitResult{Stats: map[string]int64{}}
	switch a.Facet {
	case "args", "catalog":
		c12ArgsFacet(a, w, &res)
	case "bytes":
		c12BytesFacet(a, w, &res)
	case "stall":
		// one connection stops reading: every other connection must keep being served (shared with C18)
		c18Stalled("C12", w, &res)
	case "seg":
		c12SegFacet(a, w, &res)
	case "junk":
		c12JunkFacet(a, w, &res)
	}
	return res
}

// judgeReply checks framing and count of what one command produced.
func c12JudgeReply(name string, nargs int, raw []byte) (kind, detail string) {
	if len(raw) == 0 {
		return "no-reply", "the command produced no reply at all"
	}
	vs, err := parseAll(raw)
	if err != nil {
		cls := "malformed"
		if err == errIncomplete || strings.Contains(err.Error(), "incomplete") {
			cls = "incomplete-reply"
		}
		return cls, fmt.Sprintf("reply bytes %q are not a sequence of complete RESP values: %v", firstN(string(raw), 120), err)
	}
	want := 1
	if subscribeFamily[name] && nargs > 1 {
		// one confirmation per channel; either as separate frames or as one array of confirmations
		if len(vs) == nargs || (len(vs) == 1 && len(vs[0].Arr) > 0) {
			return "", ""
		}
	}
	if len(vs) != want {
		return "reply-count", fmt.Sprintf("%d replies for one command: %q", len(vs), firstN(string(raw), 120))
	}
	return "", ""
}

func c12ArgsFacet(a c12Args, w *Worker, res *UnitResult) {
	if a.Facet == "catalog" {
		// realistic argument shapes: the whole command catalogue over its full domains on the standard dataset
		all := catalogActions(fullDomains, nil)
		// HELLO [protover [AUTH user password] [SETNAME name]]: every option sequence of up to four tokens after the
		// protocol version (complete, truncated, repeated and reordered options)
		for _, pv := range []string{"2", "3", "x"} {
			for n := 0; n <= 4; n++ {
				for _, v := range product([]string{"AUTH", "SETNAME", "default", "cli"}, n) {
					all = append(all, cmd(append([]string{"HELLO", pv}, v...)...))
				}
			}
		}
		// COMMAND LIST FILTERBY <MODULE|ACLCAT|PATTERN> <value>, COMMAND DOCS/COUNT with arguments
		for _, f := range []string{"MODULE", "ACLCAT", "PATTERN", "BOGUS"} {
			for _, v := range []string{"generic", "read", "*", "z*", "[a", "", "x\r\ny"} {
				all = append(all, cmd("COMMAND", "LIST", "FILTERBY", f, v))
			}
			all = append(all, cmd("COMMAND", "LIST", "FILTERBY", f))
		}
		var mine []Action
		for i, x := range all {
			if i%a.Shards == a.Shard {
				mine = append(mine, x)
			}
		}
		c12RunArgs(a, universeSeed(), mine, w, res)
		res.Samples = append(res.Samples, map[string]any{"facet": "catalog", "actions": len(all), "this_shard": len(mine)})
		return
	}
	cmds := c12Commands()
	var vectors [][]string
	for n := 0; n <= 2; n++ {
		vectors = append(vectors, product(c12Hostile, n)...)
	}
	if a.Arity3 == "full" {
		vectors = append(vectors, product(c12Hostile, 3)...)
	} else {
		vectors = append(vectors, product(c12Reduced, 3)...)
	}
	if a.Arity4 {
		vectors = append(vectors, product(c12Reduced, 4)...)
	}
	var alpha []Action
	idx := 0
	for _, c := range cmds {
		if strings.EqualFold(c[0], "module") { // loads shared objects from the host file system: outside the harness
			continue
		}
		for _, v := range vectors {
			if idx%a.Shards == a.Shard {
				alpha = append(alpha, cmd(append(append([]string{}, c...), v...)...))
			}
			idx++
		}
	}
	c12RunArgs(a, c12Seed(), alpha, w, res)
	res.Samples = append(res.Samples, map[string]any{"facet": "args", "proto": a.Proto, "vectors_per_command": len(vectors), "commands": len(cmds), "this_shard": len(alpha)})
}

func c12RunArgs(a c12Args, root []Action, alpha []Action, w *Worker, res *UnitResult) {
	if a.Proto == 3 {
		root = append(root, cmd("HELLO", "3"))
	}
	spec := &SeqSpec{Prop: "C12", Cfg: InstCfg{Conns: 2}, Depth: 1, Deadline: 25 * time.Minute,
		Alphabet: func(pre *State, depth int) []Action { return alpha }}
	spec.CheckW = func(wld *World, path []Action, pre *State, act Action, out StepOut, post *State) []Finding {
		name := strings.ToUpper(act.A[0])
		sub := ""
		ncmd := 1
		if len(act.A) > 1 && (name == "ACL" || name == "COMMAND" || name == "PUBSUB") {
			sub = " " + strings.ToUpper(act.A[1])
		}
		_ = ncmd
		var classes []string
		for _, x := range act.A[1:] {
			classes = append(classes, c12ArgClass(x))
		}
		mk := func(kind, sigTail, detail string) Finding {
			return Finding{Prop: "C12", Kind: kind, Sig: fmt.Sprintf("wire|resp%d|%s|%s%s|%s", a.Proto, kind, name, sub, sigTail),
				Detail: fmt.Sprintf("[RESP%d] %s -> %s: %s", a.Proto, act, firstN(out.Brief(), 200), detail)}
		}
		res.Stats["commands_sent"]++
		if out.Panic != "" {
			return []Finding{mk("panic", panicSite(out.Panic), "the handler panicked (in production the connection goroutine has no recover: the process dies): "+firstLine(out.Panic))}
		}
		var fs []Finding
		if name != "QUIT" {
			if kind, detail := c12JudgeReply(name, len(act.A)-1, out.Raw); kind != "" {
				fs = append(fs, mk(kind, fmt.Sprintf("arity=%d", len(act.A)-1), detail))
			}
		}
		// liveness on the second connection
		if wld != nil && !wld.Dead() {
			p := wld.Do(cmdOn(1, "PING"))
			if p.Panic != "" || p.Hang || p.Empty || p.V.IsErr() {
				fs = append(fs, mk("not-alive", "", "after the command a PING on another connection gives "+p.Brief()))
			}
		}
		_ = classes
		return fs
	}
	runSeq(spec, root, nil, w, res)
}

func c12BytesFacet(a c12Args, w *Worker, res *UnitResult) {
	values := []string{"x\r\ny", "\x00", "", "a\nb", "\r", "nul\x00mid", "+OK", "$-1", "*2", "caf\xc3\xa9 \xff\xfe bin\x80ary"}
	type probe struct {
		setup     []Action
		reader    []string
		want      string // must appear among the decoded strings of the reply
		frameOnly bool   // only the framing is judged (the selected bytes are not specified)
	}
	for _, v := range values {
		probes := []probe{
			{[]Action{cmd("SET", "k", v)}, []string{"GET", "k"}, v, false},
			{[]Action{cmd("SET", "k", v)}, []string{"MGET", "k"}, v, false},
			{[]Action{cmd("SET", "k", v)}, []string{"GETRANGE", "k", "0", "-1"}, v, false},
			{[]Action{cmd("SET", "k", v)}, []string{"GETRANGE", "k", "8", "2"}, "", true},
			{[]Action{cmd("SET", "k", v)}, []string{"GETRANGE", "k", "-1", "0"}, "", true},
			{[]Action{cmd("SET", "k", v)}, []string{"SUBSTR", "k", "5", "1"}, "", true},
			{[]Action{cmd("SET", "k", v)}, []string{"GETRANGE", "k", "2", "6"}, "", true},
			{[]Action{cmd("SET", "k", v)}, []string{"GETDEL", "k"}, v, false},
			{[]Action{cmd("SET", "k", v)}, []string{"GETEX", "k"}, v, false},
			{[]Action{cmd("SET", "k", "old")}, []string{"SET", "k", "new", "GET"}, "old", false},
			{[]Action{cmd("SET", "k", v)}, []string{"SET", "k", "new", "GET"}, v, false},
			{[]Action{cmd("HSET", "h", "f", v)}, []string{"HGET", "h", "f"}, v, false},
			{[]Action{cmd("HSET", "h", "f", v)}, []string{"HGETALL", "h"}, v, false},
			{[]Action{cmd("HSET", "h", "f", v)}, []string{"HVALS", "h"}, v, false},
			{[]Action{cmd("HSET", "h", v, "x")}, []string{"HKEYS", "h"}, v, false},
			{[]Action{cmd("RPUSH", "l", v)}, []string{"LRANGE", "l", "0", "-1"}, v, false},
			{[]Action{cmd("RPUSH", "l", v)}, []string{"LINDEX", "l", "0"}, v, false},
			{[]Action{cmd("RPUSH", "l", v)}, []string{"LPOP", "l"}, v, false},
			{[]Action{cmd("RPUSH", "l", v, "z")}, []string{"RPOP", "l", "2"}, v, false},
			{[]Action{cmd("SADD", "s", v)}, []string{"SMEMBERS", "s"}, v, false},
			{[]Action{cmd("SADD", "s", v)}, []string{"SPOP", "s"}, v, false},
			{[]Action{cmd("SADD", "s", v)}, []string{"SRANDMEMBER", "s"}, v, false},
			{[]Action{cmd("ZADD", "z", "1", v)}, []string{"ZRANGE", "z", "-inf", "+inf", "BYSCORE"}, v, false},
			{[]Action{cmd("ZADD", "z", "1", v)}, []string{"ZPOPMIN", "z"}, v, false},
			{[]Action{cmd("SET", v, "x")}, []string{"RANDOMKEY"}, v, false},
			{nil, []string{"ECHO", v}, v, false},
			{nil, []string{"PING", v}, v, false},
		}
		for _, p := range probes {
			if v == "" && (p.reader[0] == "RANDOMKEY" || p.reader[0] == "PING") {
				continue
			}
			id := fmt.Sprintf("bytes %q via %s", v, strings.Join(p.reader, " "))
			if !w.Case(id) {
				continue
			}
			setup := p.setup
			if a.Proto == 3 {
				setup = append([]Action{cmd("HELLO", "3")}, setup...)
			}
			wld, _, err := buildWorld(InstCfg{Conns: 2}, setup)
			if err != nil || wld.Dead() {
				continue
			}
			out := wld.Do(cmd(p.reader...))
			res.Stats["evaluations"]++
			vclass := c12ArgClass(v)
			if vclass == "kw" {
				vclass = "resp-lookalike"
			}
			mk := func(kind, detail string) {
				res.Findings = append(res.Findings, Finding{Prop: "C12", Kind: kind, Sig: fmt.Sprintf("bytes|resp%d|%s|%s|%s", a.Proto, p.reader[0], vclass, kind),
					Detail: fmt.Sprintf("[RESP%d] stored %q, then %s -> raw %q: %s", a.Proto, v, strings.Join(p.reader, " "), firstN(string(out.Raw), 120), detail),
					Replay: replayOf(InstCfg{Conns: 2}, setup, cmd(p.reader...))})
			}
			switch {
			case out.Panic != "":
				mk("panic", firstLine(out.Panic))
			case out.Empty:
				mk("no-reply", "no reply")
			case out.PErr != "":
				mk("malformed", "the reply does not parse as exactly one RESP value ("+out.PErr+"): stored bytes leak into the framing")
			default:
				found := false
				var walk func(x RV)
				walk = func(x RV) {
					if !x.Nul && (x.K == '$' || x.K == '+') && x.S == p.want {
						found = true
					}
					for _, e := range x.Arr {
						walk(e)
					}
				}
				walk(out.V)
				if !found && !p.frameOnly {
					mk("bytes-altered", fmt.Sprintf("the decoded reply %s does not contain the stored bytes %q", out.V, p.want))
				}
				res.Outcomes = append(res.Outcomes, hashJSON(out.V.String()))
			}
			wld.Close()
		}
	}
	res.Samples = append(res.Samples, map[string]any{"facet": "bytes", "values": values})
}

// all ways to cut b into at most 3 non-empty segments
func cuts3(n int) [][]int {
	out := [][]int{{}}
	for i := 1; i < n; i++ {
		out = append(out, []int{i})
	}
	for i := 1; i < n; i++ {
		for j := i + 1; j < n; j++ {
			out = append(out, []int{i, j})
		}
	}
	return out
}

func c12SegFacet(a c12Args, w *Worker, res *UnitResult) {
	streams := [][][]string{
		{{"SET", "a", "1"}}, {{"GET", "a"}}, {{"PING"}}, {{"ECHO", "hello"}},
		{{"SET", "a", "1"}, {"GET", "a"}}, {{"PING"}, {"PING"}}, {{"INCR", "n"}, {"INCR", "n"}}, {{"GET", "nokey"}, {"SET", "a", "2"}},
		{{"SET", "a", "1"}, {"INCR", "a"}, {"GET", "a"}}, {{"RPUSH", "l", "x"}, {"LLEN", "l"}, {"LRANGE", "l", "0", "-1"}}, {{"BOGUS"}, {"PING"}},
	}
	idx := 0
	for _, st := range streams {
		// reference: one command per write
		ref, _, err := buildWorld(InstCfg{Conns: 2}, nil)
		if err != nil {
			continue
		}
		var want []byte
		var all []byte
		wantUpTo := map[int]int{} // byte offset of the end of the k-th command -> length of the replies due by then
		for _, c := range st {
			o := ref.Do(cmd(c...))
			want = append(want, o.Raw...)
			all = append(all, encodeCmd(c)...)
			wantUpTo[len(all)] = len(want)
		}
		ref.Close()
		for _, cut := range cuts3(len(all)) {
			idx++
			if idx%a.Shards != a.Shard {
				continue
			}
			id := fmt.Sprintf("stream %v cuts %v", st, cut)
			if !w.Case(id) {
				continue
			}
			wld, _, err := buildWorld(InstCfg{Conns: 2}, nil)
			if err != nil {
				continue
			}
			var got []byte
			prev := 0
			bad := ""
			withheld := ""
			for _, c := range append(append([]int{}, cut...), len(all)) {
				o := wld.in.DoRaw(0, all[prev:c])
				got = append(got, o.Raw...)
				if o.Panic != "" {
					bad = "panic: " + firstLine(o.Panic)
				}
				if o.Hang {
					bad = "hang"
				}
				prev = c
				// promptness: once the server is idle, every command whose bytes have completely arrived has been
				// answered - a client may wait for those replies before it sends the rest
				due := 0
				for end, n := range wantUpTo {
					if end <= c && n > due {
						due = n
					}
				}
				if bad == "" && withheld == "" && len(got) < due {
					withheld = fmt.Sprintf("after %d bytes (complete commands answered by %d reply bytes) only %d reply bytes had been sent", c, due, len(got))
				}
			}
			res.Stats["evaluations"]++
			// classification of the cut
			bounds := map[int]bool{}
			off := 0
			for _, c := range st {
				off += len(encodeCmd(c))
				bounds[off] = true
			}
			shape := fmt.Sprintf("cmds=%d", len(st))
			inside := false
			for _, c := range cut {
				if !bounds[c] {
					inside = true
				}
			}
			switch {
			case len(cut) == 0 && len(st) > 1:
				shape += "|pipelined-in-one-write"
			case len(cut) == 0:
				shape += "|single-write"
			case inside:
				shape += "|command-split-across-writes"
			default:
				shape += "|one-or-more-commands-per-write"
			}
			kind := ""
			switch {
			case bad != "":
				kind = "crash"
			case string(got) != string(want):
				kind = "replies-differ"
			}
			res.Outcomes = append(res.Outcomes, hashJSON(string(got)))
			if withheld != "" && kind == "" {
				res.Findings = append(res.Findings, Finding{Prop: "C12", Kind: "reply-withheld", Sig: "segmentation|" + shape + "|reply-withheld",
					Detail: fmt.Sprintf("stream %v written as segments cut at %v: %s", st, cut, withheld), Replay: map[string]any{"stream": st, "cuts": cut}, Cost: len(all)*10 + len(cut)})
			}
			if kind != "" {
				res.Findings = append(res.Findings, Finding{Prop: "C12", Kind: kind, Sig: "segmentation|" + shape + "|" + kind,
					Detail: fmt.Sprintf("stream %v (%d bytes) written as segments cut at %v: server wrote %q, one-command-per-write gives %q %s", st, len(all), cut, firstN(string(got), 160), firstN(string(want), 160), bad),
					Replay: map[string]any{"stream": st, "cuts": cut}, Cost: len(all)*10 + len(cut)})
			}
			// liveness
			if p := wld.Do(cmdOn(1, "PING")); p.V.S != "PONG" {
				res.Findings = append(res.Findings, Finding{Prop: "C12", Kind: "not-alive", Sig: "segmentation|" + shape + "|not-alive", Detail: id + ": PING on another connection gives " + p.Brief()})
			}
			wld.Close()
		}
	}
	// large bulk strings in one logical write (the reader sees them in 8 KiB reads)
	if a.Shard == 0 {
		for _, n := range []int{8100, 8160, 8161, 8162, 8191, 8192, 8193, 16384, 20000} {
			id := fmt.Sprintf("bulk %d", n)
			if !w.Case(id) {
				continue
			}
			wld, _, err := buildWorld(InstCfg{Conns: 2}, nil)
			if err != nil {
				continue
			}
			val := strings.Repeat("v", n)
			msg := encodeCmd([]string{"SET", "big", val})
			o := wld.in.DoRaw(0, msg)
			g := wld.Do(cmd("GET", "big"))
			res.Stats["evaluations"]++
			rel := "other"
			switch {
			case len(msg)%8192 == 0:
				rel = "message-is-multiple-of-8192"
			case len(msg) > 8192:
				rel = "message-larger-than-8192"
			}
			if string(o.Raw) != "+OK\r\n" || g.V.S != val {
				res.Findings = append(res.Findings, Finding{Prop: "C12", Kind: "large-bulk", Sig: "segmentation|large-bulk|" + rel,
					Detail: fmt.Sprintf("SET big <%d bytes> (message of %d bytes in one write): reply %q, then GET big returns %d bytes (%s)", n, len(msg), firstN(string(o.Raw), 60), len(g.V.S), firstN(g.Brief(), 60))})
			}
			wld.Close()
		}
	}
	// replies around the 1024-byte write chunk of the connection loop: every byte of the reply must arrive
	if a.Shard == 1%a.Shards {
		for _, total := range []int{1022, 1023, 1024, 1025, 1026, 2047, 2048, 2049, 2050, 3072, 3073, 4097} {
			// ECHO payload p gives the reply "$<len>\r\n<p>\r\n"
			n := total - 2 - 1 - len(fmt.Sprint(total)) - 2
			for ; n > 0; n++ {
				if len(fmt.Sprintf("$%d\r\n", n))+n+2 >= total {
					break
				}
			}
			id := fmt.Sprintf("reply of %d bytes", total)
			if !w.Case(id) {
				continue
			}
			wld, _, err := buildWorld(InstCfg{Conns: 2}, nil)
			if err != nil {
				continue
			}
			val := strings.Repeat("r", n)
			o := wld.Do(cmd("ECHO", val))
			res.Stats["evaluations"]++
			want := fmt.Sprintf("$%d\r\n%s\r\n", n, val)
			if string(o.Raw) != want && !(o.V.K == '+' && o.V.S == val) {
				res.Findings = append(res.Findings, Finding{Prop: "C12", Kind: "large-reply", Sig: fmt.Sprintf("segmentation|large-reply|len%%1024=%d", len(want)%1024),
					Detail: fmt.Sprintf("ECHO of %d bytes: expected a %d-byte reply, the server wrote %d bytes (%s)", n, len(want), len(o.Raw), firstN(o.Brief(), 80))})
			}
			if p := wld.Do(cmd("PING")); p.V.S != "PONG" {
				res.Findings = append(res.Findings, Finding{Prop: "C12", Kind: "large-reply", Sig: "segmentation|large-reply|next-reply-misframed",
					Detail: fmt.Sprintf("after an ECHO with a %d-byte reply, PING on the same connection gives %s", len(want), firstN(p.Brief(), 80))})
			}
			wld.Close()
		}
	}
	res.Samples = append(res.Samples, map[string]any{"facet": "seg", "streams": len(streams)})
}

func c12JunkFacet(a c12Args, w *Worker, res *UnitResult) {
	samples := [][]string{{"SET", "a", "1"}, {"LRANGE", "l", "0", "-1"}, {"HELLO", "3"}, {"SUBSCRIBE", "c"}, {"MSET", "a", "1", "b", "2"}}
	subst := []byte{'*', '$', '\r', ':', '-', '9'}
	for _, c := range samples {
		full := encodeCmd(c)
		var inputs [][]byte
		for i := 1; i < len(full); i++ {
			inputs = append(inputs, full[:i])
		}
		for i := 0; i < len(full); i++ {
			for _, b := range subst {
				if full[i] != b {
					m := append([]byte{}, full...)
					m[i] = b
					inputs = append(inputs, m)
				}
			}
		}
		for _, in := range inputs {
			id := fmt.Sprintf("junk %q", string(in))
			if !w.Case(id) {
				continue
			}
			wld, _, err := buildWorld(InstCfg{Conns: 2}, []Action{cmd("RPUSH", "l", "x")})
			if err != nil {
				continue
			}
			o := wld.in.DoRaw(0, in)
			res.Stats["evaluations"]++
			kind := ""
			switch {
			case o.Panic != "":
				kind = "panic|" + panicSite(o.Panic)
			case o.Hang:
				kind = "hang"
			default:
				p := wld.Do(cmdOn(1, "PING"))
				if p.V.S != "PONG" {
					kind = "not-alive"
				}
			}
			res.Outcomes = append(res.Outcomes, hashJSON(string(o.Raw)))
			if kind != "" {
				res.Findings = append(res.Findings, Finding{Prop: "C12", Kind: "junk", Sig: "junk|" + c[0] + "|" + kind,
					Detail: fmt.Sprintf("bytes %q on a connection: %s (reply %q)", string(in), kind, firstN(string(o.Raw), 80)), Replay: map[string]any{"bytes": string(in)}})
			}
			wld.Close()
		}
	}
	res.Samples = append(res.Samples, map[string]any{"facet": "junk", "commands": samples})
}
