package main

import (
	"encoding/json"
	"fmt"
)

// C09 — log rewrite is transparent and crash-atomic.
//
// CRASH explorer (shares the AOF history judge with C02): every sequence of
// <= n actions over a write alphabet that contains the REWRITEAOF action at
// least once (first, last, twice, on an empty log ...).  Crash images P, T
// over ALL operations of the history (in particular every file operation of
// CreatePreamble and Truncate), thorough also D restricted to the rewrite's own
// unsynced writes.  Oracle: the restored dataset is the dataset of a prefix j of
// the history with j >= number of commands acknowledged before the rewrite
// began (and = everything when there is no crash); no duplication, no re-typing;
// after recovery the server is durable again.
// The writer-vs-rewrite interleavings are explored by the SCHED facet (c09sched.go).

type c09Check struct{}

func init() { register("C09", c09Check{}) }

func (c09Check) Describe() CheckInfo {
	return CheckInfo{
		Level: "fault_enumeration",
		Rule: "histories: all sequences up to the tier's length over {SET, INCR, RPUSH, SADD, DEL, SET..EX, SELECT 1, embedded SET, REWRITEAOF} containing at least one REWRITEAOF, sync policy always (thorough: all three); " +
			"every journal prefix, every byte-prefix of every write and (thorough) every subset of the rewrite's unsynced writes dropped is recovered by a fresh server with AOF restore, followed by one more write and a clean restart. " +
			"Non-trivial = distinct image content; outcomes = distinct recovered datasets.",
		Assumptions: []string{"persistence model as for C02", "concurrent writers during a rewrite are covered by the scheduler facet, not here"},
	}
}

type c09Args struct {
	Sync  string
	First int
	Len   int
	Drop  bool
	Fixed int // >0: one of the fixed longer histories (two rewrites with writes and removals around them)
}

// c09Fixed: histories longer than the quick tier's bound that rewrite twice, with a removal, an overwrite or a database
// change between the rewrites and a write after the last one - state carried from one rewrite to the next shows here.
func c09Fixed() [][]Action {
	rw := Action{K: "rewrite"}
	// plain string values only: other kinds and numbers are re-typed by the JSON preamble (known findings of their own)
	return [][]Action{
		{cmd("SET", "a", "x"), rw, cmd("DEL", "a"), rw},
		{cmd("SET", "a", "x"), cmd("SET", "l", "y"), rw, cmd("DEL", "a"), cmd("RENAME", "l", "m"), rw, cmd("SET", "late", "z")},
		{cmd("SET", "t", "m"), rw, cmd("FLUSHDB"), cmd("SET", "b", "y"), rw},
		{cmd("SELECT", "1"), cmd("SET", "a", "one"), rw, cmd("SET", "a", "one-updated"), cmd("SET", "after", "y"), rw, cmd("SET", "late", "z")},
		{cmd("SET", "a", "x"), rw, cmd("SET", "a", "y"), rw, cmd("APPEND", "a", "z")},
	}
}

func c09Alphabet() []Action {
	return []Action{
		{K: "rewrite"}, cmd("SET", "a", "1"), cmd("INCR", "n"), cmd("RPUSH", "l", "x"), cmd("SADD", "t", "m"), cmd("DEL", "a"),
		cmd("SET", "b", "v", "EX", "100"), cmd("SELECT", "1"), emb("SET", "a", "emb"),
	}
}

func (c09Check) Units(tier string, seed int64) []Unit {
	var us []Unit
	add := func(n int, syncs []string, drop bool) {
		for _, s := range syncs {
			for f := range c09Alphabet() {
				b, _ := json.Marshal(c09Args{Sync: s, First: f, Len: n, Drop: drop})
				us = append(us, Unit{Name: fmt.Sprintf("%s-first%d-len%d-drop%v", s, f, n, drop), Args: b})
			}
		}
	}
	if tier == "thorough" {
		add(4, []string{"always"}, false)
		add(3, []string{"everysec", "no"}, false)
		add(3, []string{"always"}, true)
	} else {
		add(3, []string{"always"}, false)
	}
	for i := range c09Fixed() {
		b, _ := json.Marshal(c09Args{Sync: "always", Fixed: i + 1, Drop: tier == "thorough"})
		us = append(us, Unit{Name: fmt.Sprintf("fixed-history-%d", i), Args: b})
	}
	return us
}

func (c09Check) Run(u Unit, w *Worker) UnitResult {
	var a c09Args
	json.Unmarshal(u.Args, &a)
	res := UnitResult{Stats: map[string]int64{}}
	cfg := InstCfg{DataDir: "/data", RestoreAOF: true, AOFSync: a.Sync}
	alpha := c09Alphabet()
	outcomes := map[string]struct{}{}
	if a.Fixed > 0 {
		aofHistory("C09", cfg, nil, c09Fixed()[a.Fixed-1], a.Drop, w, &res, outcomes)
		for o := range outcomes {
			res.Outcomes = append(res.Outcomes, o)
		}
		return res
	}
	var rec func(h []Action)
	rec = func(h []Action) {
		if rewriteIndex(h) >= 0 {
			aofHistory("C09", cfg, nil, h, a.Drop, w, &res, outcomes)
		}
		if len(h) < a.Len {
			for _, x := range alpha {
				rec(append(append([]Action{}, h...), x))
			}
		}
	}
	rec([]Action{alpha[a.First]})
	for o := range outcomes {
		res.Outcomes = append(res.Outcomes, o)
	}
	return res
}
