package main

import (
	"encoding/json"
	"fmt"
	"os"
	"path/filepath"
	"sort"
	"strings"
)

var verifRoot = func() string {
	if v := os.Getenv("VERIF_ROOT"); v != "" {
		return v
	}
	return "/verif"
}()

type KnownFinding struct {
	Property  string `json:"property"`
	Signature string `json:"signature"`
	Status    string `json:"status"` // known | fixed
	Commit    string `json:"commit,omitempty"`
	What      string `json:"what"`
	Witness   any    `json:"witness,omitempty"`
}

func loadKnown(prop string) (known map[string]KnownFinding, fixed map[string]KnownFinding) {
	known, fixed = map[string]KnownFinding{}, map[string]KnownFinding{}
	b, err := os.ReadFile(filepath.Join(verifRoot, "known_findings.json"))
	if err != nil {
		return
	}
	var all []KnownFinding
	if err := json.Unmarshal(b, &all); err != nil {
		fmt.Fprintln(os.Stderr, "known_findings.json:", err)
		os.Exit(2)
	}
	for _, k := range all {
		if k.Property != prop {
			continue
		}
		if k.Status == "fixed" {
			fixed[k.Signature] = k
		} else {
			known[k.Signature] = k
		}
	}
	return
}

func finish(prop, tier string, seed int64, c Check, a *agg, nUnits int, wall float64, engineErrs []string) int {
	info := c.Describe()
	known, _ := loadKnown(prop)
	learn := os.Getenv("VERIF_LEARN") != "" // development aid: dump unlisted signatures instead of failing

	sigs := sortedKeys(a.findings)
	var violations []Finding
	observedKnown := map[string]int{}
	for _, s := range sigs {
		if _, ok := known[s]; ok {
			observedKnown[s] = a.sigCount[s]
			continue
		}
		violations = append(violations, a.findings[s])
	}
	for _, s := range sortedKeys(known) {
		fmt.Printf("KNOWN-FINDING: property=%s %s — %s (observed=%d)\n", prop, s, known[s].What, observedKnown[s])
	}

	exhaustive := len(a.capped) == 0 && len(engineErrs) == 0 && a.unitsDone == nUnits
	evals := a.stats["transitions"] + a.stats["evaluations"] + a.stats["executions"]
	distinct := len(a.hashes)
	if len(a.outcomes) > distinct {
		distinct = len(a.outcomes)
	}
	cov := map[string]any{
		"evaluations":         evals,
		"distinct_nontrivial": distinct,
		"rule":                info.Rule,
		"samples":             a.samples,
		"exhaustive":          exhaustive,
		"stats":               a.stats,
		"units":               nUnits,
		"units_completed":     a.unitsDone,
		"distinct_outcomes":   len(a.outcomes),
		"known_findings_observed": observedKnown,
	}
	if len(a.capped) > 0 {
		cov["caps_hit"] = a.capped
	}
	if len(a.notes) > 0 {
		cov["notes"] = a.notes
	}
	for k, v := range a.extra {
		cov[k] = v
	}
	if info.Level == "model_checking" {
		st := len(a.hashes)
		if st == 0 {
			st = len(a.outcomes)
		}
		cov["states"] = st
		tr := a.stats["transitions"]
		if tr == 0 {
			tr = evals
		}
		cov["transitions"] = tr
		cov["traces_validated_against_impl"] = tr
	}
	if len(engineErrs) > 0 {
		cov["engine_errors"] = engineErrs
	}
	ev := map[string]any{
		"property_id": prop,
		"tier":        tier,
		"seed":        seed,
		"level":       info.Level,
		"coverage":    cov,
		"assumptions": info.Assumptions,
		"wall_s":      wall,
		"violations":  len(violations),
	}
	os.MkdirAll(filepath.Join(verifRoot, "evidence"), 0o755)
	eb, _ := json.MarshalIndent(ev, "", " ")
	if err := os.WriteFile(filepath.Join(verifRoot, "evidence", prop+".json"), eb, 0o644); err != nil {
		fmt.Fprintln(os.Stderr, "cannot write evidence:", err)
		return 2
	}

	fmt.Printf("check %s tier=%s: units=%d/%d evaluations=%d distinct=%d outcomes=%d findings(signatures)=%d known=%d exhaustive=%v wall=%.1fs\n",
		prop, tier, a.unitsDone, nUnits, evals, len(a.hashes), len(a.outcomes), len(sigs), len(observedKnown), exhaustive, wall)
	for _, k := range sortedKeys(a.stats) {
		fmt.Printf("  stat %s=%d\n", k, a.stats[k])
	}

	if learn {
		for _, e := range engineErrs {
			fmt.Println("ENGINE-ERROR:", firstN(e, 1500))
		}
		var out []KnownFinding
		for _, f := range violations {
			out = append(out, KnownFinding{Property: prop, Signature: f.Sig, Status: "known", What: f.Detail, Witness: f.Replay})
		}
		b, _ := json.MarshalIndent(out, "", " ")
		p := filepath.Join(verifRoot, ".work", "learn-"+prop+".json")
		os.WriteFile(p, b, 0o644)
		fmt.Printf("LEARN: %d unlisted signatures written to %s\n", len(out), p)
		return 0
	}

	if len(engineErrs) > 0 && len(violations) == 0 {
		for _, e := range engineErrs {
			fmt.Println("ENGINE-ERROR:", e)
		}
		return 2
	}
	if len(violations) == 0 {
		return 0
	}
	dir := filepath.Join(verifRoot, "replays", prop)
	os.MkdirAll(dir, 0o755)
	sort.Slice(violations, func(i, j int) bool { return violations[i].Sig < violations[j].Sig })
	for i, f := range violations {
		name := hashJSON(f.Sig) + ".json"
		p := filepath.Join(dir, name)
		rb, _ := json.MarshalIndent(map[string]any{"property": prop, "signature": f.Sig, "kind": f.Kind, "detail": f.Detail, "replay": f.Replay}, "", " ")
		os.WriteFile(p, rb, 0o644)
		if i < 25 {
			fmt.Printf("VIOLATION property=%s replay=%s\n", prop, p)
			fmt.Printf("  signature: %s\n  detail: %s\n", f.Sig, strings.ReplaceAll(firstN(f.Detail, 600), "\n", "\n    "))
		}
	}
	if len(violations) > 25 {
		fmt.Printf("... and %d more violations (replay files in %s)\n", len(violations)-25, dir)
	}
	return 1
}

func firstN(s string, n int) string {
	if len(s) <= n {
		return s
	}
	return s[:n] + "…"
}
