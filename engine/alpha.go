package main

import (
	"fmt"
	"sort"
	"strconv"
	"strings"

	"github.com/echovault/sugardb/sugardb"
)

// Abstract dataset α(σ): database -> key -> typed value + deadline.  This is
// the state space of the reference models and of the differential oracles.

type AVal struct {
	Kind string             // string | int | float | list | hash | set | zset | nil | other:<gotype>
	S    string             `json:",omitempty"` // scalar rendering
	L    []string           `json:",omitempty"` // list
	H    map[string]string  `json:",omitempty"` // hash: field -> "<t>:<v>" (t in s,i,f)
	M    []string           `json:",omitempty"` // set members, sorted
	Z    map[string]float64 `json:"-"` // sorted set
	Exp  int64              `json:",omitempty"` // deadline in unix ms, 0 = none
	Bad  string             `json:",omitempty"` // structural defect of the stored value (e.g. set length mismatch)
}

type Alpha map[int]map[string]AVal

func fmtFloat(f float64) string { return strconv.FormatFloat(f, 'g', -1, 64) }

func scalarOf(v any, gotype string) (kind, s string, ok bool) {
	switch gotype {
	case "string":
		return "string", v.(string), true
	case "int", "int64":
		return "int", strconv.FormatInt(v.(int64), 10), true
	case "float64":
		return "float", strings.TrimPrefix(v.(string), sugardb.VerifFloatPrefix), true
	}
	return "", "", false
}

func alphaOf(d sugardb.VerifDump) Alpha {
	a := Alpha{}
	for db, m := range d.Store {
		a[db] = map[string]AVal{}
		for k, e := range m {
			a[db][k] = avalOf(e)
		}
	}
	return a
}

func deepMap(v any) [][]any {
	m, ok := v.(map[string]any)
	if !ok {
		return nil
	}
	l, _ := m["map"].([]any)
	out := make([][]any, 0, len(l))
	for _, e := range l {
		out = append(out, e.([]any))
	}
	return out
}

func avalOf(e sugardb.VerifEntry) AVal {
	av := AVal{Exp: e.ExpireMs}
	if k, s, ok := scalarOf(e.Value, e.GoType); ok {
		av.Kind, av.S = k, s
		return av
	}
	switch e.GoType {
	case "<nil>":
		av.Kind = "nil"
	case "[]string":
		av.Kind = "list"
		for _, x := range e.Value.([]any) {
			av.L = append(av.L, x.(string))
		}
	case "map[string]interface {}":
		av.Kind = "hash"
		av.H = map[string]string{}
		for _, kv := range deepMap(e.Value) {
			f := kv[0].(string)
			switch x := kv[1].(type) {
			case string:
				if strings.HasPrefix(x, sugardb.VerifFloatPrefix) {
					av.H[f] = "f:" + strings.TrimPrefix(x, sugardb.VerifFloatPrefix)
				} else {
					av.H[f] = "s:" + x
				}
			case int64:
				av.H[f] = "i:" + strconv.FormatInt(x, 10)
			case nil:
				av.H[f] = "n:"
			default:
				av.H[f] = fmt.Sprintf("?:%v", x)
			}
		}
	case "*set.Set":
		av.Kind = "set"
		st, _ := e.Value.(map[string]any)
		for _, kv := range deepMap(st["members"]) {
			av.M = append(av.M, kv[0].(string))
		}
		sort.Strings(av.M)
		if l, ok := st["length"].(int64); ok && int(l) != len(av.M) {
			av.Bad = fmt.Sprintf("set length field %d but %d members", l, len(av.M))
		}
	case "*sorted_set.SortedSet":
		av.Kind = "zset"
		av.Z = map[string]float64{}
		st, _ := e.Value.(map[string]any)
		for _, kv := range deepMap(st["members"]) {
			mo, _ := kv[1].(map[string]any)
			scs, _ := mo["Score"].(string)
			sc, _ := strconv.ParseFloat(strings.TrimPrefix(scs, sugardb.VerifFloatPrefix), 64)
			av.Z[kv[0].(string)] = sc
			if ex, ok := mo["Exists"].(bool); ok && !ex {
				av.Bad = "sorted set member " + kv[0].(string) + " stored with Exists=false"
			}
			if val, ok := mo["Value"].(string); ok && val != kv[0].(string) {
				av.Bad = "sorted set member key/value mismatch"
			}
		}
	default:
		av.Kind = "other:" + e.GoType
		av.S = fmt.Sprint(e.Value)
	}
	return av
}

func (v AVal) String() string {
	var sb strings.Builder
	sb.WriteString(v.Kind)
	switch v.Kind {
	case "string", "int", "float":
		sb.WriteString("(" + strconv.Quote(v.S) + ")")
	case "list":
		sb.WriteString(fmt.Sprintf("%q", v.L))
	case "set":
		sb.WriteString(fmt.Sprintf("%q", v.M))
	case "hash":
		ks := sortedKeys(v.H)
		sb.WriteString("{")
		for _, k := range ks {
			sb.WriteString(fmt.Sprintf("%q:%q ", k, v.H[k]))
		}
		sb.WriteString("}")
	case "zset":
		ks := sortedKeys(v.Z)
		sb.WriteString("{")
		for _, k := range ks {
			sb.WriteString(fmt.Sprintf("%q:%s ", k, fmtFloat(v.Z[k])))
		}
		sb.WriteString("}")
	default:
		sb.WriteString("(" + v.S + ")")
	}
	if v.Exp != 0 {
		sb.WriteString(fmt.Sprintf("@%d", v.Exp))
	}
	if v.Bad != "" {
		sb.WriteString("!BAD:" + v.Bad)
	}
	return sb.String()
}

// String renders α canonically (sorted), empty databases omitted.
func (a Alpha) String() string {
	var dbs []int
	for db, m := range a {
		if len(m) > 0 {
			dbs = append(dbs, db)
		}
	}
	sort.Ints(dbs)
	var sb strings.Builder
	for _, db := range dbs {
		sb.WriteString(fmt.Sprintf("db%d{", db))
		for _, k := range sortedKeys(a[db]) {
			sb.WriteString(fmt.Sprintf("%q=%s; ", k, a[db][k]))
		}
		sb.WriteString("} ")
	}
	return sb.String()
}

// DropExpired returns a copy without keys whose deadline has passed at nowMs.
func (a Alpha) DropExpired(nowMs int64) Alpha {
	out := Alpha{}
	for db, m := range a {
		out[db] = map[string]AVal{}
		for k, v := range m {
			if v.Exp != 0 && v.Exp < nowMs {
				continue
			}
			out[db][k] = v
		}
	}
	return out
}

func (a Alpha) Get(db int, k string) (AVal, bool) {
	v, ok := a[db][k]
	return v, ok
}
