package main

import (
	"crypto/sha256"
	"encoding/hex"
	"fmt"
	"path"
	"sort"
	"strings"

	"github.com/echovault/sugardb/verifrt"
)

// CRASH explorer: a history is executed on the in-memory file system, whose
// journal records every file operation of the real persistence code.  Crash
// images are then enumerated exhaustively:
//   P  every prefix of the journal (a crash between any two file operations)
//   T  for every write, every proper byte-prefix of its data (torn write)
//   D  for every prefix, every subset of the writes not yet covered by a Sync of their file dropped
// Each distinct image is handed to a fresh server started with restore; the
// property's oracle judges the recovered dataset.
//
// Persistence model (assumption): metadata operations and writes reach the disk
// in program order unless dropped as unsynced; Sync(f) makes all earlier writes to f durable.

type CrashRun struct {
	Cfg     InstCfg
	History []Action
	Journal []verifrt.FSOp
	Begin   []int    // journal index of the begin mark of action i
	Ack     []int    // journal index of the ack mark of action i (-1 if the action did not return)
	States  []*State // state after action i (nil if dead)
	Outs    []StepOut
	EndNow  int64 // virtual time (ms) at the end of the history
	Base    *verifrt.MemFS
}

// runHistory executes the history on a fresh world with journalling and marks.
func runHistory(cfg InstCfg, base *verifrt.MemFS, history []Action) (*CrashRun, *World, error) {
	resetEnv(1)
	fs := verifrt.NewMemFS()
	if base != nil {
		fs = base.Clone()
	}
	verifrt.SetFS(fs)
	w := &World{cfg: cfg, fs: fs}
	in, err := newInstance(cfg)
	if err != nil {
		return nil, nil, err
	}
	w.in = in
	run := &CrashRun{Cfg: cfg, History: history, Base: base}
	fs.Mark("start")
	for i, a := range history {
		fs.Mark(fmt.Sprintf("begin:%d", i))
		run.Begin = append(run.Begin, fs.JournalLen()-1)
		out := w.Do(a)
		run.Outs = append(run.Outs, out)
		if out.Hang || w.Dead() {
			run.Ack = append(run.Ack, -1)
			run.States = append(run.States, nil)
			break
		}
		fs.Mark(fmt.Sprintf("ack:%d", i))
		run.Ack = append(run.Ack, fs.JournalLen()-1)
		run.States = append(run.States, w.State())
	}
	run.Journal = fs.Journal()
	run.EndNow = verifrt.Now().UnixMilli()
	return run, w, nil
}

type CrashImage struct {
	Cut      int    // number of journal entries (marks included) before the crash
	Torn     int    // >=0: the op at index Cut is a write of which only Torn bytes reached the disk
	Dropped  []int  // journal indices of unsynced writes that never reached the disk
	Action   int    // index of the action in progress at the crash (-1: none)
	Acked    int    // number of actions acknowledged before the crash
	OpDesc   string // the operation interrupted / about to run: "<file>:<op>#<k>" (k-th op of that kind on that file within the action)
	FS       *verifrt.MemFS
	Hash     string
}

func fsHash(fs *verifrt.MemFS) string {
	h := sha256.New()
	files := fs.Files()
	for _, p := range sortedKeys(files) {
		fmt.Fprintf(h, "%s\x00%d\x00", p, len(files[p]))
		h.Write(files[p])
	}
	for _, d := range fs.Dirs() {
		fmt.Fprintf(h, "D%s\x00", d)
	}
	return hex.EncodeToString(h.Sum(nil)[:12])
}

func isReal(op verifrt.FSOp) bool { return op.Kind != verifrt.FSMark }

// opLabel names journal entry idx relative to the action it belongs to.
func (r *CrashRun) opLabel(idx int) string {
	if idx >= len(r.Journal) {
		return "end"
	}
	op := r.Journal[idx]
	if !isReal(op) {
		return "mark:" + op.Tag
	}
	// count ops of this kind on this file since the begin mark of the enclosing action
	start := 0
	for i := idx; i >= 0; i-- {
		if r.Journal[i].Kind == verifrt.FSMark && strings.HasPrefix(r.Journal[i].Tag, "begin:") {
			start = i
			break
		}
	}
	k := 0
	for i := start; i <= idx; i++ {
		o := r.Journal[i]
		if o.Kind == op.Kind && o.Path == op.Path {
			k++
		}
	}
	return fmt.Sprintf("%s:%s#%d", fileLabel(op.Path), op.Kind, k)
}

// fileLabel: base name, with snapshot directories (named after a timestamp) normalised.
func fileLabel(p string) string {
	b := path.Base(p)
	d := path.Base(path.Dir(p))
	if len(d) >= 10 && strings.Trim(d, "0123456789") == "" {
		return "<ts>/" + b
	}
	if len(b) >= 10 && strings.Trim(b, "0123456789") == "" {
		return "<ts>"
	}
	return b
}

func (r *CrashRun) actionAt(cut int) (action, acked int) {
	action = -1
	for i := range r.Begin {
		if r.Begin[i] < cut {
			if r.Ack[i] >= 0 && r.Ack[i] < cut {
				acked = i + 1
				action = -1
			} else {
				action = i
			}
		}
	}
	return
}

// build materialises the image: base + journal[0:cut) (+ torn part of journal[cut]) minus dropped.
func (r *CrashRun) build(cut, torn int, dropped map[int]bool) *verifrt.MemFS {
	fs := verifrt.NewMemFS()
	if r.Base != nil {
		fs = r.Base.Clone()
	}
	for i := 0; i < cut; i++ {
		if dropped[i] {
			continue
		}
		fs.Apply(r.Journal[i])
	}
	if torn >= 0 {
		op := r.Journal[cut]
		op.Data = op.Data[:torn]
		fs.Apply(op)
	}
	return fs
}

type crashOpts struct {
	Torn     bool
	Drop     bool
	MaxDrop  int // max number of unsynced writes considered for dropping per prefix
	From, To int // only cuts in [From, To] (journal indices); To<0 = end
}

// enumImages calls f for every crash image (deduplicated by content per distinct (hash, acked, action) triple).
func (r *CrashRun) enumImages(o crashOpts, f func(img CrashImage)) (total int) {
	seen := map[string]bool{}
	emit := func(cut, torn int, dropped []int) {
		total++
		dm := map[int]bool{}
		for _, d := range dropped {
			dm[d] = true
		}
		fs := r.build(cut, torn, dm)
		act, acked := r.actionAt(cut)
		h := fsHash(fs)
		key := fmt.Sprintf("%s|%d|%d", h, act, acked)
		if seen[key] {
			return
		}
		seen[key] = true
		lab := r.opLabel(cut)
		if torn >= 0 {
			lab += fmt.Sprintf("(torn)")
		}
		if len(dropped) > 0 {
			var dl []string
			for _, d := range dropped {
				dl = append(dl, r.opLabel(d))
			}
			lab += " dropped[" + strings.Join(dl, ",") + "]"
		}
		f(CrashImage{Cut: cut, Torn: torn, Dropped: dropped, Action: act, Acked: acked, OpDesc: lab, FS: fs, Hash: h})
	}
	to := o.To
	if to < 0 || to > len(r.Journal) {
		to = len(r.Journal)
	}
	for cut := o.From; cut <= to; cut++ {
		// a cut just before a mark is the same image as the cut after it: take cuts before real ops and the final one
		if cut < len(r.Journal) && !isReal(r.Journal[cut]) && cut != to {
			continue
		}
		emit(cut, -1, nil)
		if o.Torn && cut < len(r.Journal) && r.Journal[cut].Kind == verifrt.FSWrite {
			for t := 1; t < len(r.Journal[cut].Data); t++ {
				emit(cut, t, nil)
			}
		}
		if o.Drop {
			// writes before cut not followed (before cut) by a Sync of the same file
			var unsynced []int
			for i := 0; i < cut; i++ {
				op := r.Journal[i]
				if op.Kind != verifrt.FSWrite && op.Kind != verifrt.FSTruncate {
					continue
				}
				synced := false
				for j := i + 1; j < cut; j++ {
					if r.Journal[j].Kind == verifrt.FSSync && r.Journal[j].Path == op.Path {
						synced = true
						break
					}
				}
				if !synced {
					unsynced = append(unsynced, i)
				}
			}
			// Per file, writes reach the disk in order: what can be lost is a SUFFIX of that file's unsynced
			// operations; different files are independent (this is what reorders preamble vs log, manifest vs state).
			byFile := map[string][]int{}
			var files []string
			for _, i := range unsynced {
				p := r.Journal[i].Path
				if _, ok := byFile[p]; !ok {
					files = append(files, p)
				}
				byFile[p] = append(byFile[p], i)
			}
			sort.Strings(files)
			for _, p := range files {
				if len(byFile[p]) > o.MaxDrop {
					byFile[p] = byFile[p][len(byFile[p])-o.MaxDrop:]
				}
			}
			var rec func(fi int, cur []int)
			rec = func(fi int, cur []int) {
				if fi == len(files) {
					if len(cur) > 0 {
						d := append([]int{}, cur...)
						sort.Ints(d)
						emit(cut, -1, d)
					}
					return
				}
				l := byFile[files[fi]]
				for k := 0; k <= len(l); k++ { // drop the last k unsynced operations of this file
					rec(fi+1, append(cur, l[len(l)-k:]...))
				}
			}
			rec(0, nil)
		}
	}
	return total
}

// Recovered is what a fresh server makes of a crash image.
type Recovered struct {
	Alpha    Alpha
	Panic    string
	Hang     bool
	StartErr string
	LastSave int64
	World    *World
}

// recoverImage starts a fresh instance on a copy of the image (clock left as is).
func recoverImage(cfg InstCfg, fs *verifrt.MemFS) Recovered {
	rec := recoverImageOnce(cfg, fs)
	for try := 0; rec.Hang && try < 2; try++ { // watchdog verdicts are confirmed before they are believed
		rec = recoverImageOnce(cfg, fs)
	}
	return rec
}

func recoverImageOnce(cfg InstCfg, fs *verifrt.MemFS) Recovered {
	verifrt.ResetTracking()
	cp := fs.Clone()
	verifrt.SetFS(cp)
	var rec Recovered
	w := &World{cfg: cfg, fs: cp}
	func() {
		defer func() {
			if p := recover(); p != nil {
				rec.Panic = fmt.Sprintf("%v", p)
			}
		}()
		in, err := newInstance(cfg)
		if err != nil {
			rec.StartErr = err.Error()
			return
		}
		w.in = in
	}()
	if w.in == nil {
		return rec
	}
	if w.in.dead {
		rec.Panic = strings.Join(w.in.panics, "\n")
		rec.Hang = w.in.deadWhy == "hang"
		return rec
	}
	st := w.State()
	rec.Alpha = st.Alpha
	rec.LastSave = st.Dump.LatestSnapshot
	rec.World = w
	return rec
}

func alphaKeyList(a Alpha) string {
	var parts []string
	for db, m := range a {
		for k := range m {
			parts = append(parts, fmt.Sprintf("%d:%s", db, k))
		}
	}
	sort.Strings(parts)
	return strings.Join(parts, ",")
}
