package main

import (
	"fmt"
	"sort"
	"strings"
)

// C16: set commands against reference finite sets.

func init() {
	register("C16", familyCheck{&familySpec{Prop: "C16", Kinds: []string{"set"}, Ref: refSet, Random: setRandom, Sig: setSig, LooseDeadlines: true, Deep: []Action{cmd("SMEMBERS", "t"), cmd("SREM", "t", "a"), cmd("SADD", "t", "z"), cmd("SADD", "t", "a"), cmd("SCARD", "t"), cmd("SISMEMBER", "t", "z"), cmd("SINTER", "t", "t2"), cmd("SUNIONSTORE", "dst", "t", "t2"), cmd("SMOVE", "t", "t2", "a"), cmd("SMOVE", "t2", "t", "d"), cmd("SPOP", "t", "5"), cmd("SRANDMEMBER", "t", "2"), cmd("SDIFFSTORE", "t", "t", "t3"), cmd("SUNIONSTORE", "dst", "x", "dst")},
		Title: "refSet (Go maps as finite sets: membership changes, union/intersection/difference over the named operands with absent = empty, STORE = replace destination, SMOVE, sized random selections)"}})
}

// dropWrongTyped returns db without the operands that hold another type.
func dropWrongTyped(db map[string]AVal, ops []string, now int64) map[string]AVal {
	p := cloneDB(db)
	for _, k := range ops {
		if v, ex := aliveVal(db, k, now); ex && v.Kind != "set" {
			delete(p, k)
		}
	}
	return p
}

func setOf(l []string) map[string]bool {
	m := map[string]bool{}
	for _, x := range l {
		m[x] = true
	}
	return m
}

func listOf(m map[string]bool) []string {
	out := []string{}
	for k := range m {
		out = append(out, k)
	}
	sort.Strings(out)
	return out
}

// refSet wraps refSet1: validation order is unspecified, so invalid arguments on a missing key may answer as a miss.
func refSet(db map[string]AVal, a []string, now int64) *refExp {
	e := refSet1(db, a, now)
	if e == nil || len(a) < 2 {
		return e
	}
	if _, exists := aliveVal(db, a[1], now); !exists && e.post == nil && len(e.reply) == 1 && strings.HasPrefix(e.desc, "an error") {
		e.reply = append(e.reply, rNil(), rEmptyArr(), rInt(0))
		e.desc += " (or the reply of a miss)"
	}
	return e
}

func refSet1(db map[string]AVal, a []string, now int64) *refExp {
	name := strings.ToUpper(a[0])
	if len(a) < 2 {
		return errExp("wrong number of arguments")
	}
	// operand lookup: ok=false on a key of another type
	get := func(k string) (map[string]bool, bool, bool) {
		v, ex := aliveVal(db, k, now)
		if !ex {
			return map[string]bool{}, false, true
		}
		if v.Kind != "set" {
			return nil, true, false
		}
		return setOf(v.M), true, true
	}
	put := func(base map[string]AVal, k string, m map[string]bool, keepExp bool) map[string]AVal {
		p := cloneDB(base)
		exp := int64(0)
		if keepExp {
			exp = p[k].Exp
		}
		p[k] = AVal{Kind: "set", M: listOf(m), Exp: exp}
		return p
	}
	intE := func(n int, post map[string]AVal) *refExp {
		return &refExp{reply: []func(StepOut) bool{rInt(int64(n))}, desc: fmt.Sprintf("the integer %d", n), post: post}
	}
	arrU := func(m map[string]bool) *refExp {
		return &refExp{reply: []func(StepOut) bool{rArr(listOf(m), true)}, desc: fmt.Sprintf("the members %q in any order", listOf(m))}
	}
	key := a[1]
	switch name {
	case "SADD", "SREM":
		if len(a) < 3 {
			return errExp("wrong number of arguments")
		}
		s, ex, ok := get(key)
		if !ok {
			return errExp("not a set")
		}
		n := 0
		for _, m := range a[2:] {
			if name == "SADD" && !s[m] {
				s[m] = true
				n++
			}
			if name == "SREM" && s[m] {
				delete(s, m)
				n++
			}
		}
		if name == "SREM" && !ex {
			return intE(0, nil)
		}
		return intE(n, put(db, key, s, true))
	case "SCARD":
		if len(a) != 2 {
			return errExp("wrong number of arguments")
		}
		s, _, ok := get(key)
		if !ok {
			return errExp("not a set")
		}
		return intE(len(s), nil)
	case "SISMEMBER":
		if len(a) != 3 {
			return errExp("wrong number of arguments")
		}
		s, _, ok := get(key)
		if !ok {
			return errExp("not a set")
		}
		if s[a[2]] {
			return intE(1, nil)
		}
		return intE(0, nil)
	case "SMISMEMBER":
		if len(a) < 3 {
			return errExp("wrong number of arguments")
		}
		s, _, ok := get(key)
		if !ok {
			return errExp("not a set")
		}
		var w []string
		for _, m := range a[2:] {
			if s[m] {
				w = append(w, "1")
			} else {
				w = append(w, "0")
			}
		}
		return &refExp{reply: []func(StepOut) bool{rArr(w, false)}, desc: fmt.Sprintf("the flags %v", w)}
	case "SMEMBERS":
		if len(a) != 2 {
			return errExp("wrong number of arguments")
		}
		s, _, ok := get(key)
		if !ok {
			return errExp("not a set")
		}
		return arrU(s)
	case "SUNION", "SINTER", "SDIFF", "SINTERCARD", "SUNIONSTORE", "SINTERSTORE", "SDIFFSTORE":
		ops := a[1:]
		store := strings.HasSuffix(name, "STORE")
		dst := ""
		if store {
			dst, ops = a[1], a[2:]
		}
		limit := 0
		if name == "SINTERCARD" {
			for i, x := range ops {
				if strings.EqualFold(x, "LIMIT") {
					if i != len(ops)-2 {
						return errExp("LIMIT must be followed by exactly one integer")
					}
					l, ok := atoi(ops[i+1])
					if !ok {
						return errExp("LIMIT is not an integer")
					}
					if l < 0 {
						return nil // a negative limit is not specified
					}
					limit, ops = l, ops[:i]
					break
				}
			}
		}
		if len(ops) == 0 {
			return errExp("wrong number of arguments")
		}
		var sets []map[string]bool
		anyMissing, anyWrong := false, false
		for _, k := range ops {
			s, ex, ok := get(k)
			if !ok {
				anyWrong = true
				continue
			}
			if !ex {
				anyMissing = true
			}
			sets = append(sets, s)
		}
		if anyWrong {
			e := errExp("an operand is not a set")
			if anyMissing && strings.HasPrefix(name, "SINTER") {
				// which operand is examined first is unspecified: an absent operand may already have decided the (empty) result
				alt := refSet1(dropWrongTyped(db, ops, now), a, now)
				if alt != nil {
					e.reply = append(e.reply, alt.reply...)
					if alt.post != nil {
						p := cloneDB(db)
						p[dst] = alt.post[dst]
						e.postAlt = append(e.postAlt, p)
					}
					e.desc += " (or the empty result, an operand being absent)"
				}
			}
			return e
		}
		if _, bex, _ := get(ops[0]); !bex && strings.HasPrefix(name, "SDIFF") {
			// the repository's tests pin an error for an absent base set; the property only requires that an absent key contributes no members
			res := &refExp{reply: []func(StepOut) bool{rErr(), rEmptyArr(), rInt(0)}, desc: "an empty difference (or an error, the base set being absent)"}
			if store {
				res.postAlt = append(res.postAlt, put(db, dst, map[string]bool{}, false))
			}
			return res
		}
		res := map[string]bool{}
		for m := range sets[0] {
			res[m] = true
		}
		for _, s := range sets[1:] {
			switch {
			case strings.HasPrefix(name, "SUNION"):
				for m := range s {
					res[m] = true
				}
			case strings.HasPrefix(name, "SINTER"):
				for m := range res {
					if !s[m] {
						delete(res, m)
					}
				}
			default:
				for m := range s {
					delete(res, m)
				}
			}
		}
		if name == "SINTERCARD" {
			n := len(res)
			if limit > 0 && n > limit {
				n = limit
			}
			return intE(n, nil)
		}
		if !store {
			return arrU(res)
		}
		e := intE(len(res), put(db, dst, res, false))
		if dv, ex := aliveVal(db, dst, now); ex && dv.Kind != "set" {
			// destination of another type: "replace the destination" vs "a set command on a non-set key fails" - both accepted
			e.reply = append(e.reply, rErr())
			e.postAlt = append(e.postAlt, db)
			e.desc += " (or an error and no change, the destination holding another type)"
		}
		return e
	case "SMOVE":
		if len(a) != 4 {
			return errExp("wrong number of arguments")
		}
		src, _, ok1 := get(a[1])
		dstS, dex, ok2 := get(a[2])
		if !ok1 || !ok2 {
			return errExp("source or destination is not a set")
		}
		if !src[a[3]] {
			e := intE(0, nil)
			if !dex {
				e.reply = append(e.reply, rErr())
			}
			return e
		}
		if a[1] == a[2] {
			return intE(1, nil)
		}
		delete(src, a[3])
		dstS[a[3]] = true
		p := put(db, a[1], src, true)
		p = put(p, a[2], dstS, true)
		e := intE(1, p)
		if !dex {
			// "moves a member from source set to destination set": an absent destination may be created or refused
			e.reply = append(e.reply, rInt(0), rErr())
			e.postAlt = append(e.postAlt, db)
			e.desc += " (or 0/an error and no change, the destination being absent)"
		}
		return e
	case "SPOP", "SRANDMEMBER":
		if len(a) > 3 {
			return errExp("wrong number of arguments")
		}
		if len(a) == 3 {
			if _, ok := atoi(a[2]); !ok {
				return errExp("count is not an integer")
			}
		}
		if _, _, ok := get(key); !ok {
			return errExp("not a set")
		}
		return &refExp{random: true}
	}
	return nil
}

// setRandom judges SPOP / SRANDMEMBER: a correctly sized selection of current members; SPOP removes exactly them.
func setRandom(pre map[string]AVal, a []string, o StepOut, post map[string]AVal) string {
	name := strings.ToUpper(a[0])
	cur := setOf(pre[a[1]].M)
	hasCnt := len(a) == 3
	cnt := 1
	if hasCnt {
		cnt, _ = atoi(a[2])
	}
	preK, postK := dbKey(normText(normEmpty(pre))), dbKey(normText(normEmpty(post)))
	if o.PErr != "" || o.Empty {
		return "malformed or missing reply"
	}
	if o.V.IsErr() {
		if preK != postK {
			return "error reply but the dataset changed"
		}
		if hasCnt && cnt < 0 && name == "SPOP" {
			return "" // a negative SPOP count may be refused
		}
		return "error reply for a valid selection request"
	}
	var got []string
	switch {
	case o.V.Nul && len(o.V.Arr) == 0:
	case o.V.K == '*' || o.V.K == '~':
		got = o.V.Strs()
	case !hasCnt:
		got = []string{o.V.Text()}
	default:
		return "the reply is not an array"
	}
	seen := map[string]bool{}
	distinct := true
	for _, m := range got {
		if !cur[m] {
			return fmt.Sprintf("%q is not a current member", m)
		}
		if seen[m] {
			distinct = false
		}
		seen[m] = true
	}
	want := cnt
	if cnt < 0 {
		want = -cnt
	}
	capped := want
	if capped > len(cur) {
		capped = len(cur)
	}
	if cnt >= 0 {
		// a positive count selects min(count, cardinality) distinct members
		if !distinct {
			return "repeated member in a selection that must be distinct"
		}
		want = capped
	} else if len(cur) == 0 {
		want = 0
	}
	// a negative count is not documented: |count| members with repeats (Redis) or capped at the cardinality
	if len(got) != want && !(cnt < 0 && len(got) == capped) {
		return fmt.Sprintf("selection of %d members, expected %d", len(got), want)
	}
	if name == "SRANDMEMBER" {
		if preK != postK {
			return "SRANDMEMBER changed the dataset"
		}
		return ""
	}
	exp := cloneDB(pre)
	if v, ok := exp[a[1]]; ok {
		for m := range seen {
			delete(cur, m)
		}
		v.M = listOf(cur)
		exp[a[1]] = v
	}
	if e := dbKey(normText(normEmpty(exp))); e != postK {
		return fmt.Sprintf("after SPOP returned %q the dataset is %s, expected %s", got, firstN(postK, 200), firstN(e, 200))
	}
	return ""
}

// setSig groups the divergences of one root cause: SDIFF/SDIFFSTORE skip operands (other than the base set) that hold
// another type instead of failing - behaviour the repository's own tests pin.
func setSig(db map[string]AVal, a []string, kind string, now int64) string {
	name := strings.ToUpper(a[0])
	if name != "SDIFF" && name != "SDIFFSTORE" {
		return ""
	}
	ops := a[1:]
	if name == "SDIFFSTORE" {
		ops = a[2:]
	}
	if len(ops) < 2 {
		return ""
	}
	if v, ex := aliveVal(db, ops[0], now); !ex || v.Kind != "set" {
		return ""
	}
	for _, k := range ops[1:] {
		if v, ex := aliveVal(db, k, now); ex && v.Kind != "set" {
			return kind + "|" + name + " <set> ... with a further operand of another type (skipped instead of refused)"
		}
	}
	return ""
}
