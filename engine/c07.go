package main

import (
	"encoding/json"
	"os"
	"fmt"
	"net"
	"sort"
	"strings"
	"time"

	"github.com/echovault/sugardb/sugardb"
	"github.com/echovault/sugardb/verifrt"
)

// C07: replication.  Two facets, both on REAL cluster nodes (hashicorp/raft, in-memory stores, loopback transport):
//
//   determinism  two independent single-voter nodes A and B receive the same command log through the real leader path
//                (handleCommand -> raftApplyCommand -> raft -> FSM.Apply).  B applies it later (virtual clock skew) and
//                with another random stream - exactly what distinguishes two replicas of one cluster.  Every log of the
//                replicated alphabet up to the tier's length is enumerated from the seeded universe; the datasets of
//                all logical databases (values and deadlines) and the acknowledged replies must be equal.
//   cluster      a three-node cluster (leader, forwarding follower, rejecting follower): every command of the alphabet
//                x entry node.  After each acknowledged leader write all nodes must reach the same applied index and
//                then hold identical datasets; the leader must observe its own write; a write sent to a follower must
//                not be applied locally (its dataset is unchanged at reply time unless the leader's applied entry
//                arrived) and is answered by an error or forwarded.
//
// The raft/gossip schedules themselves (election timers, heartbeats, message order) run in real time and are NOT
// enumerated: exploration is exhaustive over the command logs, not over replication schedules.  Waiting for replication
// is a poll for equal applied indices; a batch that does not converge within its budget is reported as not exhaustive,
// never as a violation.

func init() { register("C07", c07Check{}) }

type c07Check struct{}

type c07Args struct {
	Facet  string
	Shard  int
	Shards int
	Depth  int
	Dom    string
}

func (c07Check) Describe() CheckInfo {
	return CheckInfo{
		Level: "exploration",
		Rule: "exhaustive enumeration of command logs (every replicated command of engine/catalog.go in every argument template over the tier's domains, length 1 from the seeded universe and length 2 over the tiny domains) applied through the real leader path of two independent single-voter raft nodes that differ in random stream and apply time; plus every command x entry node on a real 3-node cluster. " +
			"Oracles: equal datasets (all databases, values and deadlines) and equal acknowledged replies between the two nodes; equal datasets on all three nodes once their applied indices agree; a follower never changes its dataset by itself for a client write. Non-trivial = a log whose commands changed the dataset.",
		Assumptions: []string{"raft elections, heartbeats and gossip run in real time and are not enumerated (schedules of the replication protocol are not owned by the explorer)",
			"leadership transfer and node shutdown between batches are not exercised; the raft snapshot round trip is driven through raft's user-triggered Snapshot/Restore, not through log compaction",
			"a batch that does not converge within its polling budget is reported as not exhaustive, not as a violation"},
	}
}

func (c07Check) Units(tier string, seed int64) []Unit {
	var us []Unit
	add := func(facet string, depth, shards int, dom string) {
		for s := 0; s < shards; s++ {
			b, _ := json.Marshal(c07Args{Facet: facet, Shard: s, Shards: shards, Depth: depth, Dom: dom})
			us = append(us, Unit{Name: fmt.Sprintf("%s-%s-depth%d-shard%d", facet, dom, depth, s), Args: b})
		}
	}
	if tier == "thorough" {
		add("determinism", 1, 8, "full")
		add("determinism", 2, 32, "first+first") // both commands from the one-value-per-placeholder alphabet
		add("cluster", 1, 16, "tiny")
	} else {
		add("determinism", 1, 6, "small")
		add("determinism", 2, 8, "shapers+first")
		add("cluster", 1, 4, "first")
	}
	return us
}

// ---- cluster nodes ----

type c07Node struct {
	in   *Instance
	id   string
	disc int
}

func freePort() int {
	l, err := net.Listen("tcp", "127.0.0.1:0")
	if err != nil {
		panic(err)
	}
	defer l.Close()
	return l.Addr().(*net.TCPAddr).Port
}

var c07NodeSeq = 0

func c07NewNode(bootstrap bool, join string, forward bool) (*c07Node, error) {
	c07NodeSeq++
	conf := defaultConf()
	conf.DataDir = ""
	conf.EvictionPolicy = "noeviction"
	conf.EvictionInterval = time.Hour * 24 * 365
	conf.AOFSyncStrategy = "no"
	conf.ServerID = fmt.Sprintf("N%d-%d", c07NodeSeq, time.Now().UnixNano()%100000)
	conf.BootstrapCluster = bootstrap
	conf.JoinAddr = join
	conf.ForwardCommand = forward
	conf.BindAddr = "127.0.0.1"
	conf.RaftBindAddr = "127.0.0.1"
	conf.Port = uint16(freePort())
	conf.DiscoveryPort = uint16(freePort())
	conf.RaftBindPort = uint16(freePort())
	db, err := sugardb.NewSugarDB(sugardb.WithConfig(conf))
	if err != nil {
		return nil, err
	}
	c07dbg("NewSugarDB returned for %s", conf.ServerID)
	in := &Instance{cfg: InstCfg{}, db: db}
	in.openConn()
	c07dbg("conn opened")
	in.Quiesce()
	c07dbg("quiesced")
	return &c07Node{in: in, id: conf.ServerID, disc: int(conf.DiscoveryPort)}, nil
}

func (n *c07Node) waitLeader(d time.Duration) bool {
	end := time.Now().Add(d)
	for time.Now().Before(end) {
		if n.in.db.VerifRaftState() == "Leader" {
			return true
		}
		time.Sleep(20 * time.Millisecond)
	}
	return false
}

func (n *c07Node) call(args ...string) StepOut {
	return outOfReply(n.in.Do(0, args...))
}

func (n *c07Node) alpha() Alpha { return alphaOf(n.in.Dump()) }

func (n *c07Node) close() { n.in.Close() }

// ---- alphabet ----

// firstDomains: one value per placeholder (every command in every template once).
func firstDomains() Domains {
	d := Domains{}
	for k, v := range smallDomains {
		d[k] = v[:1]
	}
	return d
}

func c07Alphabet(dom string, sync map[string]bool) []Action {
	d := fullDomains
	switch dom {
	case "small":
		d = smallDomains
	case "tiny":
		d = tinyDomains()
	case "first":
		d = firstDomains()
	}
	return catalogActions(d, func(e *CatEntry) bool { return !e.Read && sync[e.Name] })
}

// c07Shapers: first commands of the quick tier's length-2 logs - each puts the dataset into another shape
// (emptied collections, volatile keys, other types under known names, another database).
func c07Shapers() []Action {
	return []Action{cmd("DEL", "s", "l"), cmd("EXPIRE", "t", "100"), cmd("SPOP", "t", "3"), cmd("LPOP", "l", "4"), cmd("ZPOPMIN", "z", "3"),
		cmd("HDEL", "h", "f1", "f2", "f3"), cmd("SET", "x", "v", "EX", "100"), cmd("FLUSHDB"), cmd("RENAME", "t", "s"), cmd("PERSIST", "vs"),
		cmd("SADD", "x", "m"), cmd("ZADD", "x", "1", "a", "1", "b"), cmd("LPUSH", "x", "a", "a"), cmd("HSET", "x", "f1", "1"), cmd("SELECT", "1")}
}

func alphaKey(a Alpha) string { return a.String() }

// diffKind classifies how two datasets differ: "deadline" when only deadlines differ, else "value".
func c07DiffKind(a, b Alpha) (string, string) {
	strip := func(x Alpha) Alpha {
		o := Alpha{}
		for db, m := range x {
			o[db] = map[string]AVal{}
			for k, v := range m {
				v.Exp = 0
				o[db][k] = v
			}
		}
		return o
	}
	if alphaKey(strip(a)) == alphaKey(strip(b)) {
		return "deadline", firstDiff(a, b)
	}
	return "value", firstDiff(a, b)
}

func firstDiff(a, b Alpha) string {
	dbs := map[int]bool{}
	for db := range a {
		dbs[db] = true
	}
	for db := range b {
		dbs[db] = true
	}
	var out []string
	for db := range dbs {
		keys := map[string]bool{}
		for k := range a[db] {
			keys[k] = true
		}
		for k := range b[db] {
			keys[k] = true
		}
		for k := range keys {
			x, okx := a[db][k]
			y, oky := b[db][k]
			if okx != oky || x.String() != y.String() {
				out = append(out, fmt.Sprintf("db%d %q: %v / %v", db, k, map[bool]any{true: x, false: "absent"}[okx], map[bool]any{true: y, false: "absent"}[oky]))
			}
		}
	}
	sort.Strings(out)
	if len(out) > 3 {
		out = out[:3]
	}
	return strings.Join(out, "; ")
}

func (c c07Check) Run(u Unit, w *Worker) UnitResult {
	var a c07Args
	json.Unmarshal(u.Args, &a)
	res := UnitResult{Stats: map[string]int64{}}
	resetEnv(u.Seed)
	verifrt.SetFS(verifrt.NewMemFS())
	switch a.Facet {
	case "determinism":
		c.determinism(a, w, &res)
	case "cluster":
		c.cluster(a, w, &res)
	}
	return res
}

const c07Skew = 1500 // ms between the application of a log on A and on B

// apply runs a log on one node and returns the replies.
func c07Apply(n *c07Node, log []Action, seed int64) ([]StepOut, bool) {
	verifrt.SeedRand(seed)
	var outs []StepOut
	for _, act := range log {
		o := n.call(act.A...)
		outs = append(outs, o)
		if o.Hang || o.Panic != "" {
			return outs, false
		}
	}
	return outs, true
}

func (c c07Check) determinism(a c07Args, w *Worker, res *UnitResult) {
	A, err := c07NewNode(true, "", false)
	if err != nil {
		res.EngineError = "cannot start node A: " + err.Error()
		return
	}
	defer A.close()
	B, err := c07NewNode(true, "", false)
	if err != nil {
		res.EngineError = "cannot start node B: " + err.Error()
		return
	}
	defer B.close()
	// S: a standalone (non-cluster) instance - the reference for the EFFECT of a command: what the leader path applies
	// must be what the command does when executed directly
	sIn, err := newInstance(InstCfg{})
	if err != nil {
		res.EngineError = "cannot start the standalone reference: " + err.Error()
		return
	}
	S := &c07Node{in: sIn, id: "standalone"}
	defer S.close()
	if !A.waitLeader(15*time.Second) || !B.waitLeader(15*time.Second) {
		res.Capped = "a single-voter node did not become leader within 15 s"
		return
	}
	sync := A.in.db.VerifCommandSync()
	dom1, dom2 := a.Dom, a.Dom
	if i := strings.Index(a.Dom, "+"); i > 0 {
		dom1, dom2 = a.Dom[:i], a.Dom[i+1:]
	}
	alpha := c07Alphabet(dom1, sync)
	if dom1 == "shapers" {
		alpha = c07Shapers()
	}
	alpha2 := c07Alphabet(dom2, sync)
	seed := universeSeed()
	res.Samples = append(res.Samples, map[string]any{"facet": "determinism", "alphabet": len(alpha), "depth": a.Depth, "domains": a.Dom})

	reset := func() bool {
		for _, n := range []*c07Node{A, B, S} {
			if o := n.call("FLUSHALL"); o.V.IsErr() || o.Hang {
				return false
			}
			if o := n.call("SELECT", "0"); o.V.IsErr() || o.Hang {
				return false
			}
			if len(n.alpha().DropExpired(0)[0]) != 0 {
				// not emptied
			}
		}
		return true
	}
	hashes := map[string]struct{}{}
	lastLog, lastLogName := "(none)", "(none)"
	runLog := func(log []Action) (ok bool) {
		id := pathString(log)
		if !w.Case(id) {
			return true
		}
		if !reset() {
			res.Capped = "FLUSHALL failed between logs"
			return false
		}
		full := append(append([]Action{}, seed...), log...)
		// the seed is applied with the same random stream and no skew; the log proper with skew and another stream
		if _, ok := c07Apply(A, seed, 1); !ok {
			res.Capped = "seeding A failed"
			return false
		}
		if _, ok := c07Apply(B, seed, 1); !ok {
			res.Capped = "seeding B failed"
			return false
		}
		if _, ok := c07Apply(S, seed, 1); !ok {
			res.Capped = "seeding the standalone reference failed"
			return false
		}
		preA := A.alpha()
		if alphaKey(preA) != alphaKey(S.alpha()) {
			res.Findings = append(res.Findings, Finding{Prop: "C07", Kind: "leader-path-effect", Sig: "leader-path-effect|seed log after " + lastLogName, Cost: 1,
				Detail: fmt.Sprintf("the seed log, acknowledged by the leader after the log [%s], left another dataset than the same commands executed directly: %s", lastLog, firstDiff(preA, S.alpha())),
				Replay: map[string]any{"facet": "determinism", "log": log}})
			return true
		}
		if alphaKey(preA) != alphaKey(B.alpha()) {
			res.EngineError = "the two nodes differ after the seed log: " + firstDiff(preA, B.alpha())
			return false
		}
		defer func() { lastLog, lastLogName = id, strings.ToUpper(log[len(log)-1].A[0]) }()
		res.Stats["logs"]++
		res.Stats["commands_applied"] += int64(3 * len(full))
		// one command at a time: A applies it, the clock moves, B applies it with another random stream; the first
		// command after which the replicas differ is the culprit (later commands would run on diverged states)
		for i, act := range log {
			preStep := A.alpha()
			nowMs := verifrt.Now().UnixMilli()
			outsS, okS := c07Apply(S, []Action{act}, int64(11+i))
			outsA, okA := c07Apply(A, []Action{act}, int64(11+i))
			if okS && okA && unorderedOrRandomReply(act.A[0]) && alphaKey(A.alpha()) != alphaKey(S.alpha()) {
				// a random selector picked other members than on the standalone reference: the rest of the log cannot
				// be compared against it (the replica comparison below still judges this command)
				res.Stats["logs_cut_after_a_random_command"]++
				outsB, okB := c07Apply(B, []Action{act}, int64(97+i))
				_ = outsB
				if okB && alphaKey(A.alpha()) != alphaKey(B.alpha()) {
					kind, diff := c07DiffKind(A.alpha(), B.alpha())
					name := strings.ToUpper(act.A[0])
					res.Findings = append(res.Findings, Finding{Prop: "C07", Kind: "replica-" + kind, Sig: "replica-" + kind + "|" + name, Cost: len(log),
						Detail: fmt.Sprintf("log [%s]: after %s the two replicas differ: %s", id, act, diff), Replay: map[string]any{"facet": "determinism", "log": log}})
				}
				break
			}
			if okS && okA && !unorderedOrRandomReply(act.A[0]) {
				// the acknowledged command must have the effect (and reply) it has when executed directly
				if pa, ps := A.alpha(), S.alpha(); alphaKey(pa) != alphaKey(ps) {
					res.Findings = append(res.Findings, Finding{Prop: "C07", Kind: "leader-path-effect", Sig: "leader-path-effect|" + strings.ToUpper(act.A[0]), Cost: len(log),
						Detail: fmt.Sprintf("log [%s]: %s acknowledged by the leader left another dataset than the same command executed directly: %s", id, act, firstDiff(pa, ps)),
						Replay: map[string]any{"facet": "determinism", "log": log}})
					break
				}
				if outsS[0].V.Canon(true) != outsA[0].V.Canon(true) && !(outsS[0].V.IsErr() && outsA[0].V.IsErr()) { // error texts may name different operands (map order)
					res.Findings = append(res.Findings, Finding{Prop: "C07", Kind: "leader-path-reply", Sig: "leader-path-reply|" + strings.ToUpper(act.A[0]), Cost: len(log),
						Detail: fmt.Sprintf("log [%s]: %s answered %s through the leader path and %s when executed directly", id, act, outsA[0].Brief(), outsS[0].Brief()),
						Replay: map[string]any{"facet": "determinism", "log": log}})
				}
			}
			verifrt.Advance(c07Skew*time.Millisecond, nil)
			outsB, okB := c07Apply(B, []Action{act}, int64(97+i))
			name := strings.ToUpper(act.A[0])
			if !okA || !okB {
				last := outsA[0]
				if okA {
					last = outsB[0]
				}
				kind := "hang"
				if last.Panic != "" {
					kind = "panic"
				}
				sig := kind + "|" + name
				for _, arg := range act.A[1:] {
					for _, m := range preStep {
						if v, ok := m[arg]; ok && v.Exp != 0 && v.Exp < nowMs {
							sig = kind + "|a command that touches an expired key through the leader path"
						}
					}
				}
				res.Findings = append(res.Findings, Finding{Prop: "C07", Kind: kind, Sig: sig, Cost: len(log),
					Detail: fmt.Sprintf("log [%s] on a single-voter node: %s -> %s", id, act, last.Brief()), Replay: map[string]any{"facet": "determinism", "log": log}})
				res.HangCase = id
				return false
			}
			postA, postB := A.alpha(), B.alpha()
			if i == len(log)-1 {
				if alphaKey(postA) != alphaKey(preA) {
					res.Stats["logs_changing_the_dataset"]++
				}
				hashes[hashJSON(alphaKey(postA))] = struct{}{}
			}
			if outsA[0].V.Canon(true) != outsB[0].V.Canon(true) && !unorderedOrRandomReply(name) && !(outsA[0].V.IsErr() && outsB[0].V.IsErr()) {
				res.Findings = append(res.Findings, Finding{Prop: "C07", Kind: "reply", Sig: "replica-reply|" + name, Cost: len(log),
					Detail: fmt.Sprintf("log [%s]: %s acknowledged with %s on one replica and %s on the other", id, act, outsA[0].Brief(), outsB[0].Brief()),
					Replay: map[string]any{"facet": "determinism", "log": log}})
			}
			if alphaKey(postA) != alphaKey(postB) {
				kind, diff := c07DiffKind(postA, postB)
				res.Findings = append(res.Findings, Finding{Prop: "C07", Kind: "replica-" + kind, Sig: "replica-" + kind + "|" + name, Cost: len(log),
					Detail: fmt.Sprintf("log [%s]: after %s, applied by the second replica %d ms later and with another random stream, the datasets differ: %s", id, act, c07Skew, diff),
					Replay: map[string]any{"facet": "determinism", "log": log}})
				break
			}
		}
		return true
	}
	idx := 0
	if a.Depth == 1 {
		for _, x := range alpha {
			idx++
			if idx%a.Shards != a.Shard {
				continue
			}
			if !runLog([]Action{x}) {
				break
			}
		}
	} else {
	outer:
		for _, x := range alpha {
			idx++
			if idx%a.Shards != a.Shard {
				continue
			}
			for _, y := range alpha2 {
				if !runLog([]Action{x, y}) {
					break outer
				}
			}
		}
	}
	// raft snapshot round trip (first shard only): a dataset is snapshotted on A by raft itself (FSM.Snapshot + Persist)
	// and restored on the emptied B through raft's Restore (FSM.Restore); B must then hold A's dataset.  First with
	// string values only (two databases, a deadline), then with the seeded universe (every value kind).
	roundTrip := func(caseName, sigName string, data []Action) {
		if !w.Case(caseName) || !reset() {
			return
		}
		c07Apply(A, data, 1)
		// the restoring node already holds older, volatile versions of the same keys (a lagging follower): the restore
		// must replace values AND deadlines
		var stale []Action
		for _, d := range data {
			if d.K == "cmd" && strings.EqualFold(d.A[0], "SET") && len(d.A) >= 3 {
				stale = append(stale, cmd("SET", d.A[1], "stale", "EX", "5000"))
			} else if d.K == "cmd" && strings.EqualFold(d.A[0], "SELECT") {
				stale = append(stale, d)
			}
		}
		if sigName == "strings" {
			c07Apply(B, stale, 1)
		}
		err, pan, hang := A.in.Call(func() error { return A.in.db.VerifRaftSnapshotTo(B.in.db) })
		res.Stats["raft_snapshot_round_trips"]++
		switch {
		case pan != "" || hang:
			res.Findings = append(res.Findings, Finding{Prop: "C07", Kind: "raft-snapshot", Sig: "raft-snapshot|" + sigName + "|panic-or-hang",
				Detail: caseName + ": " + firstLine(pan) + map[bool]string{true: " (hang)", false: ""}[hang]})
		case err != nil:
			res.Findings = append(res.Findings, Finding{Prop: "C07", Kind: "raft-snapshot", Sig: "raft-snapshot|" + sigName + "|error",
				Detail: caseName + " failed: " + err.Error()})
		default:
			if pa, pb := A.alpha(), B.alpha(); alphaKey(pa) != alphaKey(pb) {
				kind, diff := c07DiffKind(pa, pb)
				// textual comparison first: a number that only changed its internal type (int -> float64 through
				// JSON) is its own, milder signature
				ta, tb := Alpha{}, Alpha{}
				for db, m := range pa {
					ta[db] = normText(m)
				}
				for db, m := range pb {
					tb[db] = normText(m)
				}
				if alphaKey(ta) == alphaKey(tb) {
					kind = "number-type"
				}
				res.Findings = append(res.Findings, Finding{Prop: "C07", Kind: "raft-snapshot", Sig: "raft-snapshot|" + sigName + "|restored-" + kind + "-differs",
					Detail: caseName + ": the restored node holds another dataset: " + diff})
			}
		}
	}
	if a.Shard == 0 && a.Depth == 1 && w.Case("FSM snapshot taken before later entries are applied") && reset() {
		// raft calls FSM.Snapshot between two Apply calls and Persist later, while further entries are applied: the
		// snapshot must hold the state as of Snapshot(), not as of Persist()
		c07Apply(A, []Action{cmd("SET", "a", "x"), cmd("APPEND", "a", "y"), cmd("SET", "n", "1"), cmd("RPUSH", "q", "1")}, 1)
		c07Apply(A, []Action{cmd("DEL", "q")}, 1) // strings only in the snapshot (other kinds do not survive JSON, see the known findings)
		atSnapshot := A.alpha()
		err, pan, hang := A.in.Call(func() error { return A.in.db.VerifFSMSnapshotBegin() })
		if err == nil && pan == "" && !hang {
			c07Apply(A, []Action{cmd("APPEND", "a", "z"), cmd("INCR", "n"), cmd("SET", "later", "1")}, 1)
			err, pan, hang = A.in.Call(func() error { return A.in.db.VerifFSMSnapshotFinish(B.in.db, verifrt.Now().UnixMilli()) })
		}
		res.Stats["fsm_snapshot_protocol_checks"]++
		tx := func(x Alpha) string {
			t := Alpha{}
			for db, m := range x {
				t[db] = normText(m)
			}
			return alphaKey(t)
		}
		switch {
		case pan != "" || hang || err != nil:
			res.Findings = append(res.Findings, Finding{Prop: "C07", Kind: "raft-snapshot", Sig: "fsm-snapshot-protocol|failed",
				Detail: fmt.Sprintf("FSM.Snapshot / Persist / Restore with entries applied in between: err=%v panic=%s hang=%v", err, firstLine(pan), hang)})
		case tx(B.alpha()) != tx(atSnapshot):
			res.Findings = append(res.Findings, Finding{Prop: "C07", Kind: "raft-snapshot", Sig: "fsm-snapshot-protocol|snapshot-holds-later-entries",
				Detail: "a snapshot whose FSM.Snapshot() was called before further entries were applied restores another dataset than the one at that moment: " + firstDiff(atSnapshot, B.alpha())})
		}
	}
	if a.Shard == 0 && a.Depth == 1 {
		roundTrip("raft snapshot of string keys restored on another node", "strings", []Action{cmd("SET", "a", "1"), cmd("SET", "b", "text"), cmd("SET", "c", "1.5"),
			cmd("SET", "v", "x", "EX", "1000"), cmd("SELECT", "1"), cmd("SET", "other", "db1"), cmd("SELECT", "0")})
		roundTrip("raft snapshot of the seeded universe restored on another node", "universe",
			append(append([]Action{}, seed...), cmd("SELECT", "1"), cmd("SET", "other", "db1"), cmd("SELECT", "0")))
	}
	for h := range hashes {
		res.Hashes = append(res.Hashes, h)
	}
	res.Stats["transitions"] = res.Stats["commands_applied"]
}

func unorderedOrRandomReply(name string) bool {
	switch strings.ToUpper(name) {
	case "SPOP", "SRANDMEMBER", "HRANDFIELD", "ZRANDMEMBER", "RANDOMKEY":
		return true
	}
	return false
}

// ---- three-node cluster ----

func c07dbg(f string, a ...any) {
	if os.Getenv("VERIF_C07_DEBUG") != "" {
		fmt.Fprintf(os.Stderr, "C07DBG "+f+"\n", a...)
	}
}

func (c c07Check) cluster(a c07Args, w *Worker, res *UnitResult) {
	c07dbg("starting leader")
	L, err := c07NewNode(true, "", false)
	if err != nil {
		res.EngineError = "cannot start the bootstrap node: " + err.Error()
		return
	}
	defer L.close()
	if !L.waitLeader(15 * time.Second) {
		res.Capped = "the bootstrap node did not become leader within 15 s"
		return
	}
	join := fmt.Sprintf("%s/127.0.0.1:%d", L.id, L.disc)
	c07dbg("leader up, join=%s", join)
	F, err := c07NewNode(false, join, true) // forwards writes to the leader
	if err != nil {
		res.EngineError = "cannot start the forwarding follower: " + err.Error()
		return
	}
	defer F.close()
	c07dbg("F up")
	R, err := c07NewNode(false, join, false) // rejects writes
	if err != nil {
		res.EngineError = "cannot start the rejecting follower: " + err.Error()
		return
	}
	defer R.close()
	nodes := []*c07Node{L, F, R}
	c07dbg("R up")
	// wait for the three voters
	end := time.Now().Add(30 * time.Second)
	for time.Now().Before(end) && L.in.db.VerifRaftPeers() < 3 {
		time.Sleep(50 * time.Millisecond)
	}
	if L.in.db.VerifRaftPeers() < 3 {
		res.Capped = "the cluster did not reach three voters within 30 s"
		return
	}
	converge := func(budget time.Duration) bool {
		end := time.Now().Add(budget)
		for time.Now().Before(end) {
			li := L.in.db.VerifRaftLast()
			if L.in.db.VerifRaftApplied() == li && F.in.db.VerifRaftApplied() == li && R.in.db.VerifRaftApplied() == li {
				// stable twice in a row
				time.Sleep(30 * time.Millisecond)
				if L.in.db.VerifRaftLast() == li && F.in.db.VerifRaftApplied() == li && R.in.db.VerifRaftApplied() == li {
					return true
				}
			}
			time.Sleep(10 * time.Millisecond)
		}
		return false
	}
	sync := L.in.db.VerifCommandSync()
	alpha := c07Alphabet(a.Dom, sync)
	res.Samples = append(res.Samples, map[string]any{"facet": "cluster", "alphabet": len(alpha), "entry_nodes": 3, "domains": a.Dom})
	seed := universeSeed()
	names := []string{"leader", "forwarding-follower", "rejecting-follower"}
	hashes := map[string]struct{}{}
	idx := 0
	for _, act := range alpha {
		idx++
		if idx%a.Shards != a.Shard {
			continue
		}
		for entry := 0; entry < 3; entry++ {
			id := fmt.Sprintf("%s@%s", act, names[entry])
			if !w.Case(id) {
				continue
			}
			if L.in.db.VerifRaftState() != "Leader" {
				res.Capped = "leadership changed during the run (not enumerated)"
				return
			}
			// reset and seed through the leader
			verifrt.SeedRand(5)
			c07dbg("case %s: flushall", id)
			fo := L.call("FLUSHALL")
			c07dbg("flushall -> %s", fo.Brief())
			for _, s := range seed {
				L.call(s.A...)
			}
			c07dbg("seeded; L last=%d applied=%d F=%d R=%d", L.in.db.VerifRaftLast(), L.in.db.VerifRaftApplied(), F.in.db.VerifRaftApplied(), R.in.db.VerifRaftApplied())
			if !converge(10 * time.Second) {
				res.Capped = "the cluster did not converge after seeding within 10 s"
				return
			}
			pre := []Alpha{L.alpha(), F.alpha(), R.alpha()}
			if alphaKey(pre[0]) != alphaKey(pre[1]) || alphaKey(pre[0]) != alphaKey(pre[2]) {
				// the seed commands are deterministic (the determinism facet covers them): a difference here means that a
				// command of an earlier case reached the leader late - the case is skipped, not judged
				res.Stats["cases_skipped_seed_not_uniform"]++
				res.Notes = append(res.Notes, "case skipped: nodes differ after seeding (late delivery of an earlier forwarded command)")
				continue
			}
			lastBefore := L.in.db.VerifRaftLast()
			out := nodes[entry].call(act.A...)
			res.Stats["cluster_commands"]++
			if out.Hang || out.Panic != "" {
				kind := "hang"
				if out.Panic != "" {
					kind = "panic"
				}
				res.Findings = append(res.Findings, Finding{Prop: "C07", Kind: kind, Sig: "cluster-" + kind + "|" + strings.ToUpper(act.A[0]) + "@" + names[entry],
					Detail: fmt.Sprintf("%s sent to the %s: %s", act, names[entry], out.Brief())})
				res.HangCase = id
				return
			}
			name := strings.ToUpper(act.A[0])
			if entry > 0 {
				// a follower never applies a client write locally: at reply time its dataset equals the pre-state unless
				// the leader's entry has already been applied here (its applied index moved)
				now := nodes[entry].alpha()
				if alphaKey(now) != alphaKey(pre[entry]) && L.in.db.VerifRaftLast() == lastBefore {
					res.Findings = append(res.Findings, Finding{Prop: "C07", Kind: "follower-applied-locally", Sig: "follower-applied-locally|" + name + "@" + names[entry],
						Detail: fmt.Sprintf("%s sent to the %s changed its dataset although the leader logged nothing: %s", act, names[entry], firstDiff(pre[entry], now))})
				}
				if entry == 2 && !out.V.IsErr() && L.in.db.VerifRaftLast() != lastBefore {
					res.Findings = append(res.Findings, Finding{Prop: "C07", Kind: "reject-not-rejected", Sig: "rejecting-follower-forwarded|" + name,
						Detail: fmt.Sprintf("%s sent to the follower without forwarding was answered %s and reached the leader's log", act, out.Brief())})
				}
			}
			if entry == 1 && !out.V.IsErr() {
				// forwarding is asynchronous: give the leader time to receive and log the command before judging
				end := time.Now().Add(3 * time.Second)
				for time.Now().Before(end) && L.in.db.VerifRaftLast() == lastBefore {
					time.Sleep(5 * time.Millisecond)
				}
				if L.in.db.VerifRaftLast() == lastBefore {
					res.Stats["forwarded_commands_not_seen_by_the_leader_within_3s"]++
				}
			}
			if !converge(10 * time.Second) {
				res.Capped = "the cluster did not converge within 10 s after " + id
				return
			}
			post := []Alpha{L.alpha(), F.alpha(), R.alpha()}
			hashes[hashJSON(alphaKey(post[0]))] = struct{}{}
			if alphaKey(post[0]) != alphaKey(pre[0]) {
				res.Stats["cluster_commands_changing_the_dataset"]++
			}
			for i := 1; i < 3; i++ {
				if alphaKey(post[0]) != alphaKey(post[i]) {
					kind, diff := c07DiffKind(post[0], post[i])
					res.Findings = append(res.Findings, Finding{Prop: "C07", Kind: "cluster-" + kind, Sig: "cluster-" + kind + "|" + name,
						Detail: fmt.Sprintf("%s sent to the %s: with equal applied indices the leader and the %s differ: %s", act, names[entry], names[i], diff)})
					break
				}
			}
		}
	}
	// a follower that has just refused or forwarded a client write must still be able to snapshot its state machine
	// (a flag left raised by the refused write would make the state copy wait for ever and stall the follower)
	if a.Shard == 0 {
		for i, n := range []*c07Node{F, R} {
			if !w.Case("snapshot on the " + names[i+1] + " after a misrouted write") {
				continue
			}
			n.call("SET", fmt.Sprintf("misrouted%d", i), "x")
			err, pan, hang := n.in.Call(func() error { return n.in.db.VerifRaftTakeSnapshot() })
			res.Stats["follower_snapshots_after_a_misrouted_write"]++
			if hang || pan != "" {
				res.Findings = append(res.Findings, Finding{Prop: "C07", Kind: "follower-snapshot", Sig: "follower-snapshot-after-misrouted-write|" + names[i+1] + "|hang-or-panic",
					Detail: fmt.Sprintf("the %s answered a client write and then could not take a raft snapshot (hang=%v panic=%s err=%v)", names[i+1], hang, firstLine(pan), err)})
				res.HangCase = "snapshot on the " + names[i+1] + " after a misrouted write"
				return
			}
		}
		if !converge(10 * time.Second) {
			res.Capped = "the cluster did not converge after the follower snapshots"
			return
		}
	}
	// the same write issued twice through the forwarding follower must be applied twice (gossip forwarding is best
	// effort, so one lost message proves nothing: only three losses of the repeated message out of three count)
	if a.Shard == 0 {
		waitVal := func(key, want string) bool {
			end := time.Now().Add(5 * time.Second)
			for time.Now().Before(end) {
				if o := L.call("GET", key); !o.V.Nul && o.V.Text() == want {
					return true
				}
				time.Sleep(20 * time.Millisecond)
			}
			return false
		}
		lost, fine := 0, 0
		for attempt := 0; attempt < 3; attempt++ {
			key := fmt.Sprintf("repeat%d", attempt)
			if o := F.call("INCR", key); o.V.IsErr() || o.Hang || !waitVal(key, "1") {
				continue // the first one did not arrive: nothing can be said about the second
			}
			if o := F.call("INCR", key); o.V.IsErr() || o.Hang {
				continue
			}
			if waitVal(key, "2") {
				fine++
			} else {
				lost++
			}
		}
		res.Stats["repeated_forwarded_writes_applied"] += int64(fine)
		if lost == 3 {
			res.Findings = append(res.Findings, Finding{Prop: "C07", Kind: "forwarded-write-lost", Sig: "forwarded-write-lost|the same command sent twice through the forwarding follower",
				Detail: "INCR k sent twice through the forwarding follower (each acknowledged): the first reached the leader, the second never did - three times out of three"})
		}
	}
	// a node that joins late replays the leader's log from the start and must converge to the same dataset
	verifrt.SeedRand(5)
	L.call("FLUSHALL")
	for _, sd := range seed {
		L.call(sd.A...)
	}
	for i := 0; i < 20; i++ {
		L.call("SET", fmt.Sprintf("late%02d", i), fmt.Sprintf("value-%d", i))
	}
	if converge(10 * time.Second) {
		J, err := c07NewNode(false, join, false)
		if err == nil {
			defer J.close()
			end := time.Now().Add(20 * time.Second)
			for time.Now().Before(end) && (L.in.db.VerifRaftPeers() < 4 || J.in.db.VerifRaftApplied() < L.in.db.VerifRaftLast()) {
				time.Sleep(50 * time.Millisecond)
			}
			time.Sleep(100 * time.Millisecond)
			if L.in.db.VerifRaftPeers() >= 4 && J.in.db.VerifRaftApplied() >= L.in.db.VerifRaftLast() {
				res.Stats["late_join_checks"]++
				if la, ja := L.alpha(), J.alpha(); alphaKey(la) != alphaKey(ja) {
					kind, diff := c07DiffKind(la, ja)
					res.Findings = append(res.Findings, Finding{Prop: "C07", Kind: "late-joiner-" + kind, Sig: "late-joiner-" + kind,
						Detail: "a node that joined after the writes replayed the leader's log up to its last index but holds another dataset: " + diff})
				}
			} else {
				res.Notes = append(res.Notes, "late join: the new node did not catch up within 20 s (not judged)")
			}
		}
	}
	for h := range hashes {
		res.Hashes = append(res.Hashes, h)
	}
	res.Stats["transitions"] = res.Stats["cluster_commands"]
}
