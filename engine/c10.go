package main

import (
	"encoding/json"
	"fmt"
	"path"
	"strings"

	"github.com/echovault/sugardb/verifrt"
)

// C10 — snapshots are crash-atomic.
//
// CRASH explorer over histories `writes; SAVE; [writes]; SAVE†` († = crashed at
// every file operation / torn write / dropped unsynced write of the snapshot).
// Oracle (differential): the dataset and LASTSAVE a fresh server restores from
// the crash image must equal what it restores from the image of a COMPLETED
// snapshot — the previous one or the one in progress (or nothing, if no
// snapshot had completed).  A snapshot attempt that fails or finds nothing new
// must leave the files and the reported last-save time untouched.

type c10Check struct{}

func init() { register("C10", c10Check{}) }

func (c10Check) Describe() CheckInfo {
	return CheckInfo{
		Level: "fault_enumeration",
		Rule: "for every history (datasets x 0..2 earlier snapshots x {new writes, nothing new}) the real TakeSnapshot runs on the journalling in-memory file system; " +
			"every journal prefix inside the crashed snapshot, every byte-prefix of each of its writes and (thorough) every subset of its unsynced writes dropped is recovered by a fresh server with snapshot restore; " +
			"a case is non-trivial when its image content is distinct (images are deduplicated by content hash); outcomes are distinct (recovered dataset, LASTSAVE) pairs.",
		Assumptions: []string{"persistence model: operations reach the disk in program order unless dropped as unsynced; fsync makes earlier writes of that file durable",
			"two snapshots never share a millisecond (the harness advances the virtual clock by 1 ms before each snapshot)"},
	}
}

type c10Args struct {
	Dataset int
	Prev    int  // completed snapshots before the crashed one
	NewData bool // writes between the last completed snapshot and the crashed one
	Drop    bool
}

func c10Datasets() [][][]Action {
	// each dataset: list of write batches (batch k precedes snapshot k)
	strs := [][]Action{
		{cmd("SET", "a", "1"), cmd("SET", "b", "two")},
		{cmd("SET", "a", "changed"), cmd("SET", "c", "3")},
		{cmd("DEL", "b"), cmd("SET", "d", "4")},
	}
	kinds := [][]Action{
		{cmd("SET", "s", "v"), cmd("RPUSH", "l", "a", "b"), cmd("HSET", "h", "f", "v"), cmd("SELECT", "1"), cmd("SET", "s", "in-db1"), cmd("SELECT", "0")},
		{cmd("SADD", "t", "a"), cmd("ZADD", "z", "1", "a"), cmd("SET", "vs", "v", "EX", "1000"), cmd("SET", "s", "v2")},
		{cmd("DEL", "s"), cmd("SET", "n", "10")},
	}
	return [][][]Action{strs, kinds}
}

func (c10Check) Units(tier string, seed int64) []Unit {
	var us []Unit
	maxPrev := 1
	if tier == "thorough" {
		maxPrev = 2
	}
	for ds := range c10Datasets() {
		for prev := 0; prev <= maxPrev; prev++ {
			for _, nd := range []bool{true, false} {
				if prev == 0 && !nd {
					continue
				}
				a := c10Args{Dataset: ds, Prev: prev, NewData: nd, Drop: tier == "thorough"}
				b, _ := json.Marshal(a)
				us = append(us, Unit{Name: fmt.Sprintf("ds%d-prev%d-new%v", ds, prev, nd), Args: b})
			}
		}
	}
	return us
}

type recKey struct {
	alpha    string
	lastSave int64
}

func (c10Check) Run(u Unit, w *Worker) UnitResult {
	var a c10Args
	json.Unmarshal(u.Args, &a)
	res := UnitResult{Stats: map[string]int64{}}
	cfg := InstCfg{DataDir: "/data", RestoreSnapshot: true}
	batches := c10Datasets()[a.Dataset]
	var hist []Action
	var snapIdx []int
	for k := 0; k <= a.Prev; k++ {
		if k < a.Prev || a.NewData {
			hist = append(hist, batches[k]...)
		}
		hist = append(hist, Action{K: "snap"})
		snapIdx = append(snapIdx, len(hist)-1)
	}
	if !w.Case("history " + pathString(hist)) {
		return res
	}
	run, wld, err := runHistory(cfg, nil, hist)
	if err != nil {
		res.EngineError = "runHistory: " + err.Error()
		return res
	}
	defer wld.Close()
	shape := fmt.Sprintf("prev=%d,new=%v", a.Prev, a.NewData)
	last := snapIdx[len(snapIdx)-1]
	if run.Ack[len(run.Ack)-1] < 0 || len(run.Ack) != len(hist) {
		res.Findings = append(res.Findings, Finding{Prop: "C10", Kind: "panic", Sig: "history-died|" + shape,
			Detail: "the history did not complete: " + run.Outs[len(run.Outs)-1].Brief(), Replay: map[string]any{"history": pathString(hist)}})
		return res
	}
	// allowed outcomes: restore from the image of each completed snapshot (and from no snapshot at all)
	allowed := map[recKey]string{}
	addAllowed := func(cut int, name string) Recovered {
		rec := recoverImage(cfg, run.build(cut, -1, nil))
		if rec.World != nil {
			rec.World.Close()
		}
		allowed[recKey{rec.Alpha.String(), rec.LastSave}] = name
		return rec
	}
	if a.Prev == 0 {
		addAllowed(run.Begin[last], "no snapshot yet")
	} else {
		addAllowed(run.Ack[snapIdx[a.Prev-1]], "previous snapshot")
	}
	lastOut := run.Outs[last]
	attemptFailed := lastOut.Err != ""
	complete := addAllowed(run.Ack[last]+1, "new snapshot")
	// sanity of the differential reference: the completed snapshot restores the dataset of its instant (kinds may be lost by
	// the encoding — that is C03's finding — but the key set must be there, otherwise the reference itself is vacuous)
	if !attemptFailed {
		want := alphaKeyList(run.States[last].Alpha.DropExpired(run.EndNow))
		if got := alphaKeyList(complete.Alpha); got != want {
			res.Findings = append(res.Findings, Finding{Prop: "C10", Kind: "restore", Sig: "complete-snapshot-restores-other-keys|" + shape,
				Detail: fmt.Sprintf("restoring the COMPLETED snapshot yields keys [%s], the dataset at the snapshot had [%s]", got, want), Replay: map[string]any{"history": pathString(hist)}})
		}
	}
	// failed / no-op attempt leaves files and LASTSAVE untouched
	if attemptFailed {
		before := fsHash(run.build(run.Begin[last], -1, nil))
		after := fsHash(run.build(run.Ack[last]+1, -1, nil))
		res.Stats["noop_attempts_checked"]++
		if before != after {
			res.Findings = append(res.Findings, Finding{Prop: "C10", Kind: "noop", Sig: "failed-attempt-changed-files|" + shape,
				Detail: fmt.Sprintf("snapshot attempt returned %q but the snapshot directory changed", lastOut.Err), Replay: map[string]any{"history": pathString(hist)}})
		}
		if last > 0 && run.States[last-1] != nil && run.States[last-1].Dump.LatestSnapshot != run.States[last].Dump.LatestSnapshot {
			res.Findings = append(res.Findings, Finding{Prop: "C10", Kind: "noop", Sig: "failed-attempt-changed-lastsave|" + shape,
				Detail: fmt.Sprintf("snapshot attempt returned %q but LASTSAVE moved %d -> %d", lastOut.Err, run.States[last-1].Dump.LatestSnapshot, run.States[last].Dump.LatestSnapshot)})
		}
	}
	// I/O errors inside the last snapshot: every file operation of the attempt fails once (fault enumeration).  An attempt
	// that reports a failure must leave LASTSAVE where it was and a restart must still restore the previous snapshot (or
	// nothing, if there was none); a retry a moment later must succeed and then restore the current dataset.
	for k := run.Begin[last] + 1; k <= run.Ack[last]; k++ {
		if run.Journal[k].Kind == verifrt.FSMark {
			continue
		}
		resetEnv(1)
		fsk := verifrt.NewMemFS()
		verifrt.SetFS(fsk)
		wk := &World{cfg: cfg, fs: fsk}
		ink, err := newInstance(cfg)
		if err != nil {
			continue
		}
		wk.in = ink
		fsk.Mark("start")
		var before, after *State
		var outk StepOut
		dead := false
		for i, act := range hist {
			fsk.Mark(fmt.Sprintf("begin:%d", i))
			if i == last {
				before = wk.State()
				fsk.FailAt(k)
			}
			outk = wk.Do(act)
			if outk.Hang || outk.Panic != "" || wk.Dead() {
				dead = true
				break
			}
			fsk.Mark(fmt.Sprintf("ack:%d", i))
		}
		res.Stats["io_error_points"]++
		opDesc := fmt.Sprintf("%s:%s", path.Base(run.Journal[k].Path), run.Journal[k].Kind)
		if dead {
			res.Findings = append(res.Findings, Finding{Prop: "C10", Kind: "io-error", Sig: "io-error|" + shape + "|at " + opDesc + "|panic-or-hang",
				Detail: fmt.Sprintf("an I/O error at %s during the snapshot: %s", opDesc, outk.Brief()), Replay: map[string]any{"history": pathString(hist), "fail_at": k}})
			wk.Close()
			continue
		}
		after = wk.State()
		if fsk.Injected() > 0 && outk.Err != "" {
			res.Stats["io_errors_reported_by_the_attempt"]++
			if before.Dump.LatestSnapshot != after.Dump.LatestSnapshot {
				res.Findings = append(res.Findings, Finding{Prop: "C10", Kind: "io-error", Sig: "io-error|" + shape + "|failed-attempt-changed-lastsave",
					Detail: fmt.Sprintf("the snapshot attempt failed (%s at %s) but LASTSAVE moved %d -> %d", outk.Err, opDesc, before.Dump.LatestSnapshot, after.Dump.LatestSnapshot),
					Replay: map[string]any{"history": pathString(hist), "fail_at": k}})
			}
			// retry a moment later: it must succeed, and a restart must then restore the current dataset's keys
			wk.Do(adv(5))
			retry := wk.Do(Action{K: "snap"})
			if retry.Err != "" || retry.Panic != "" || retry.Hang {
				sig := "io-error|" + shape + "|retry-refused"
				if strings.Contains(retry.Err, "JSON") {
					// the failed attempt left manifest.bin truncated or half written: one root cause whatever the history
					sig = "io-error|retry-refused|the manifest is unreadable after a failed rewrite"
				}
				res.Findings = append(res.Findings, Finding{Prop: "C10", Kind: "io-error", Sig: sig,
					Detail: fmt.Sprintf("after a failed attempt (%s at %s) the retried snapshot answered %s although the dataset was never saved", outk.Err, opDesc, retry.Brief()),
					Replay: map[string]any{"history": pathString(hist), "fail_at": k}})
			} else {
				want := alphaKeyList(wk.State().Alpha.DropExpired(verifrt.Now().UnixMilli()))
				rec := recoverImage(cfg, fsk.Clone())
				if rec.World != nil {
					rec.World.Close()
				}
				if got := alphaKeyList(rec.Alpha); got != want || rec.StartErr != "" || rec.Panic != "" {
					res.Findings = append(res.Findings, Finding{Prop: "C10", Kind: "io-error", Sig: "io-error|" + shape + "|retry-not-restorable",
						Detail: fmt.Sprintf("after a failed attempt (%s at %s) and a successful retry a restart restores keys [%s] (start error %q), the dataset has [%s]", outk.Err, opDesc, got, rec.StartErr, want),
						Replay: map[string]any{"history": pathString(hist), "fail_at": k}})
				}
			}
		}
		wk.Close()
	}
	resetEnv(1)
	// crash images inside the last snapshot
	outcomes := map[string]struct{}{}
	total := run.enumImages(crashOpts{Torn: true, Drop: a.Drop, MaxDrop: 6, From: run.Begin[last], To: run.Ack[last] + 1}, func(img CrashImage) {
		res.Stats["distinct_images"]++
		rec := recoverImage(cfg, img.FS)
		if rec.World != nil {
			rec.World.Close()
		}
		res.Hashes = append(res.Hashes, img.Hash)
		kind := ""
		switch {
		case rec.Panic != "" || rec.Hang:
			kind = "start-up-panic"
		case rec.StartErr != "":
			kind = "start-up-failed"
		default:
			k := recKey{rec.Alpha.String(), rec.LastSave}
			outcomes[fmt.Sprintf("%s|%d", k.alpha, k.lastSave)] = struct{}{}
			if _, ok := allowed[k]; ok {
				return
			}
			kind = "neither-old-nor-new"
			for ak := range allowed {
				if ak.alpha == k.alpha {
					kind = "dataset-ok-lastsave-wrong"
				}
			}
			if rec.Alpha.String() == "" {
				kind = "empty-dataset"
			}
		}
		op := img.OpDesc
		if i := strings.Index(op, " dropped["); i >= 0 {
			op = op[:i] + " +dropped-unsynced"
		}
		res.Findings = append(res.Findings, Finding{Prop: "C10", Kind: kind, Sig: fmt.Sprintf("crash-in-snapshot|%s|at %s|%s", shape, op, kind),
			Detail: fmt.Sprintf("crash at %s during the snapshot of history [%s]: restore yields %q (LASTSAVE %d) — allowed: %v", img.OpDesc, pathString(hist), rec.Alpha.String(), rec.LastSave, allowedList(allowed)),
			Replay: map[string]any{"cfg": cfg, "history": hist, "cut": img.Cut, "torn": img.Torn, "dropped": img.Dropped}, Cost: img.Cut})
	})
	res.Stats["evaluations"] += int64(total)
	for o := range outcomes {
		res.Outcomes = append(res.Outcomes, hashJSON(o))
	}
	res.Samples = append(res.Samples, map[string]any{"history": pathString(hist), "journal_ops_in_crashed_snapshot": run.Ack[last] - run.Begin[last], "images": total, "allowed": allowedList(allowed), "distinct_outcomes": len(outcomes)})
	return res
}

func allowedList(m map[recKey]string) []string {
	var out []string
	for k, n := range m {
		out = append(out, fmt.Sprintf("%s=%q@%d", n, k.alpha, k.lastSave))
	}
	return out
}
