package main

import (
	"fmt"
	"math"
	"sort"
	"strconv"
	"strings"
)

// C17: sorted-set commands against a reference map member -> score, ordered by score then member.
//
// Sources: the property statement, docs/docs/commands/sorted_set/*.mdx (SugarDB syntax: ZUNION/ZINTER/ZDIFF/ZMPOP take
// no numkeys; ZRANGE ... REV documents "start stop" as min max), Redis conventions where both are silent.  Where the
// documentation leaves freedom the reference returns alternatives (see the comments at each command).

func init() {
	register("C17", familyCheck{&familySpec{Prop: "C17", Kinds: []string{"zset"}, Ref: refZset, Random: zRandom, Sig: zSig, LooseDeadlines: true,
		// an all-equal-score set whose members are prefixes of one another, and lexical bounds that are prefixes or extensions of members
		ExtraCmd: func() []Action {
			return []Action{cmd("ZADD", "x", "0", "a", "0", "ab", "0", "abc", "0", "b", "0", "ba"), cmd("ZLEXCOUNT", "x", "[ab", "[b"), cmd("ZLEXCOUNT", "x", "[a", "(ab"), cmd("ZLEXCOUNT", "x", "(a", "[abc"),
				cmd("ZRANGE", "x", "[abc", "[b", "BYLEX"), cmd("ZRANGE", "x", "(ab", "+", "BYLEX"), cmd("ZREMRANGEBYLEX", "x", "[ab", "[abc"), cmd("ZREMRANGEBYLEX", "x", "-", "(ab"), cmd("ZRANGESTORE", "dst", "x", "(a", "(b", "BYLEX"),
				// the same bounds spelled plainly (the reading "min <= member <= max over the strings as given")
				cmd("ZLEXCOUNT", "x", "ab", "b"), cmd("ZLEXCOUNT", "x", "a", "ab"), cmd("ZRANGE", "x", "abc", "b", "BYLEX"), cmd("ZREMRANGEBYLEX", "x", "ab", "abc"), cmd("ZRANGESTORE", "dst", "x", "a", "abc", "BYLEX")}
		},
		Deep: []Action{cmd("ZRANGE", "z", "-inf", "+inf", "BYSCORE", "WITHSCORES"), cmd("ZADD", "z", "2", "a"), cmd("ZADD", "z", "2", "q"), cmd("ZREM", "z", "b"), cmd("ZINCRBY", "z", "1", "a"), cmd("ZPOPMIN", "z"), cmd("ZPOPMAX", "z", "2"), cmd("ZRANK", "z", "c"), cmd("ZCARD", "z"), cmd("ZUNIONSTORE", "dst", "z", "z2"), cmd("ZINTERSTORE", "z", "z", "z2"), cmd("ZREMRANGEBYSCORE", "z", "2", "2"), cmd("ZRANGESTORE", "dst", "z", "1", "3", "BYSCORE"), cmd("ZSCORE", "z", "a")},
		Title: "refZset (a Go map member->score listed by score then member: ZADD flag table, ZINCRBY, removal by member/rank/score/lex/pop, rank and count queries, ZRANGE by index/score/lex with REV and LIMIT, weighted ZUNION/ZINTER/ZDIFF and STORE forms; ZRANDMEMBER judged on size/distinctness/membership)"}})
}

type zMS struct {
	m string
	s float64
}

func zErr(why string) *refExp {
	return &refExp{reply: []func(StepOut) bool{rErr()}, desc: "an error (" + why + ") and an unchanged dataset"}
}

// zErrOr: the arguments are invalid; when the key is missing the documented miss reply is acceptable as well (the
// order of argument validation and key lookup is not specified).
func zErrOr(why string, missing bool, missDesc string, miss ...func(StepOut) bool) *refExp {
	if !missing {
		return zErr(why)
	}
	return &refExp{reply: append([]func(StepOut) bool{rErr()}, miss...), desc: "an error (" + why + ") or, the key being absent, " + missDesc + "; dataset unchanged"}
}

func zSorted(z map[string]float64) []zMS {
	l := make([]zMS, 0, len(z))
	for m, s := range z {
		l = append(l, zMS{m, s})
	}
	sort.Slice(l, func(i, j int) bool {
		if l[i].s != l[j].s {
			return l[i].s < l[j].s
		}
		return l[i].m < l[j].m
	})
	return l
}

func zRev(l []zMS) []zMS {
	o := make([]zMS, len(l))
	for i, e := range l {
		o[len(l)-1-i] = e
	}
	return o
}

func zMap(l []zMS) map[string]float64 {
	z := map[string]float64{}
	for _, e := range l {
		z[e.m] = e.s
	}
	return z
}

func zCopy(z map[string]float64) map[string]float64 {
	o := map[string]float64{}
	for m, s := range z {
		o[m] = s
	}
	return o
}

func zFmt(l []zMS) string {
	var p []string
	for _, e := range l {
		p = append(p, fmt.Sprintf("%q:%s", e.m, fmtFloat(e.s)))
	}
	return "[" + strings.Join(p, " ") + "]"
}

func zMembers(l []zMS) []string {
	o := []string{}
	for _, e := range l {
		o = append(o, e.m)
	}
	return o
}

func zParseScore(s string) (float64, bool) {
	f, err := strconv.ParseFloat(s, 64)
	if err != nil || math.IsNaN(f) {
		return 0, false
	}
	return f, true
}

func zUniq(l []string) []string {
	var o []string
	seen := map[string]bool{}
	for _, x := range l {
		if !seen[x] {
			seen[x] = true
			o = append(o, x)
		}
	}
	return o
}

func zIsKw(s string, kws ...string) bool {
	for _, k := range kws {
		if strings.EqualFold(s, k) {
			return true
		}
	}
	return false
}

// ---- reply matchers ----

func zNumOf(v RV) (float64, bool) {
	if v.Nul || len(v.Arr) > 0 {
		return 0, false
	}
	switch v.K {
	case ':':
		return float64(v.I), true
	case '+', '$', ',':
		f, err := strconv.ParseFloat(v.S, 64)
		return f, err == nil
	}
	return 0, false
}

func zNumEq(v RV, f float64) bool {
	g, ok := zNumOf(v)
	return ok && (g == f || math.Abs(g-f) < 1e-9*math.Max(1, math.Abs(f)))
}

func zStrEq(v RV, s string) bool {
	return (v.K == '+' || v.K == '$') && !v.Nul && v.S == s
}

func zIsArr(v RV) bool { return (v.K == '*' || v.K == '~' || v.K == '%') && !v.Nul }

// zPairsOf reads a member/score listing in either of the two usual forms: flat [m s m s] or nested [[m s] ...].
func zPairsOf(v RV) (ms []RV, ss []RV, ok bool) {
	if !zIsArr(v) {
		return nil, nil, false
	}
	if len(v.Arr) == 0 {
		return nil, nil, true
	}
	if zIsArr(v.Arr[0]) {
		for _, e := range v.Arr {
			if !zIsArr(e) || len(e.Arr) != 2 {
				return nil, nil, false
			}
			ms, ss = append(ms, e.Arr[0]), append(ss, e.Arr[1])
		}
		return ms, ss, true
	}
	if len(v.Arr)%2 != 0 {
		return nil, nil, false
	}
	for i := 0; i < len(v.Arr); i += 2 {
		ms, ss = append(ms, v.Arr[i]), append(ss, v.Arr[i+1])
	}
	return ms, ss, true
}

func zPairsEq(v RV, want []zMS) bool {
	ms, ss, ok := zPairsOf(v)
	if !ok || len(ms) != len(want) {
		return false
	}
	for i, w := range want {
		if !zStrEq(ms[i], w.m) || !zNumEq(ss[i], w.s) {
			return false
		}
	}
	return true
}

// zStrictSetOpOrder: judge the order of ZUNION/ZINTER/ZDIFF replies (score then member).  The property fixes the order
// of range queries only and the documentation says nothing about the order of these replies, so it is not judged.
const zStrictSetOpOrder = false

// zStrictWrongTypeAfterAbsent: ZDIFF/ZINTER (and STORE forms) must fail on an operand of another type even when an
// earlier absent operand already makes the result empty ("a sorted-set command on another type of key fails").  Set to
// false to accept the short-circuited empty result as well.
const zStrictWrongTypeAfterAbsent = false

// zMemberNames reads a listing without scores; an element may be a string or a one-element array holding it.
func zMemberNames(v RV) ([]string, bool) {
	if !zIsArr(v) {
		return nil, false
	}
	out := []string{}
	for _, e := range v.Arr {
		if zIsArr(e) && len(e.Arr) == 1 {
			e = e.Arr[0]
		}
		if e.Nul || zIsArr(e) || (e.K != '$' && e.K != '+') {
			return nil, false
		}
		out = append(out, e.S)
	}
	return out, true
}

// zListing: the ordered listing, with or without scores.
func zListing(want []zMS, withScores bool) func(StepOut) bool {
	if !withScores {
		return func(o StepOut) bool {
			got, ok := zMemberNames(o.V)
			return ok && strings.Join(got, "\x01") == strings.Join(zMembers(want), "\x01") && len(got) == len(want)
		}
	}
	return func(o StepOut) bool { return zPairsEq(o.V, want) }
}

// zBag: the same members (and scores) in any order.
func zBag(want []zMS, withScores bool) func(StepOut) bool {
	return func(o StepOut) bool {
		var ms, ss []RV
		if withScores {
			var ok bool
			if ms, ss, ok = zPairsOf(o.V); !ok {
				return false
			}
		} else {
			names, ok := zMemberNames(o.V)
			if !ok {
				return false
			}
			for _, n := range names {
				ms = append(ms, RV{K: '$', S: n})
			}
		}
		if len(ms) != len(want) {
			return false
		}
		left := zMap(want)
		for i, m := range ms {
			sc, ok := left[m.S]
			if !ok || m.Nul || zIsArr(m) || (withScores && !zNumEq(ss[i], sc)) {
				return false
			}
			delete(left, m.S)
		}
		return len(left) == 0
	}
}

func zLeaves(v RV, out *[]RV) {
	if zIsArr(v) {
		for _, e := range v.Arr {
			zLeaves(e, out)
		}
		return
	}
	*out = append(*out, v)
}

// zPopReply: the popped members with their scores in any nesting, optionally preceded by the key name (ZMPOP).
func zPopReply(key string, withKey bool, want []zMS) func(StepOut) bool {
	return func(o StepOut) bool {
		if !zIsArr(o.V) {
			return false
		}
		var lv []RV
		zLeaves(o.V, &lv)
		if withKey && len(lv) == 2*len(want)+1 && zStrEq(lv[0], key) {
			lv = lv[1:]
		}
		if len(lv) != 2*len(want) {
			return false
		}
		// the order in which the popped members are listed is not specified
		left := zMap(want)
		for i := 0; i < len(lv); i += 2 {
			sc, ok := left[lv[i].S]
			if !ok || !zStrEq(lv[i], lv[i].S) || !zNumEq(lv[i+1], sc) {
				return false
			}
			delete(left, lv[i].S)
		}
		return len(left) == 0
	}
}

// ---- bounds ----

type zScoreBound struct {
	v    float64
	excl bool
}

func zParseScoreBound(s string) (zScoreBound, bool) {
	b := zScoreBound{}
	if strings.HasPrefix(s, "(") {
		b.excl = true
		s = s[1:]
	}
	f, ok := zParseScore(s)
	b.v = f
	return b, ok
}

func zInScore(s float64, lo, hi zScoreBound) bool {
	if s < lo.v || (lo.excl && s == lo.v) {
		return false
	}
	if s > hi.v || (hi.excl && s == hi.v) {
		return false
	}
	return true
}

type zLexBound struct {
	inf  int // -1: "-", +1: "+", 0: a value
	v    string
	excl bool
}

func zParseLexBound(s string) (zLexBound, bool) {
	switch {
	case s == "-":
		return zLexBound{inf: -1}, true
	case s == "+":
		return zLexBound{inf: 1}, true
	case strings.HasPrefix(s, "["):
		return zLexBound{v: s[1:]}, true
	case strings.HasPrefix(s, "("):
		return zLexBound{v: s[1:], excl: true}, true
	}
	return zLexBound{}, false
}

func zInLex(m string, lo, hi zLexBound) bool {
	switch lo.inf {
	case 1:
		return false
	case 0:
		if m < lo.v || (lo.excl && m == lo.v) {
			return false
		}
	}
	switch hi.inf {
	case -1:
		return false
	case 0:
		if m > hi.v || (hi.excl && m == hi.v) {
			return false
		}
	}
	return true
}

func zSameScore(z map[string]float64) bool {
	first := true
	var f float64
	for _, s := range z {
		if first {
			f, first = s, false
		} else if s != f {
			return false
		}
	}
	return true
}

// zRankWindow: inclusive rank window [s,e] (negative = from the end) over a listing of length n.
func zRankWindow(s, e, n int) (int, int, bool) {
	if s < 0 {
		s += n
	}
	if e < 0 {
		e += n
	}
	if s < 0 {
		s = 0
	}
	if e >= n {
		e = n - 1
	}
	if n == 0 || s > e || s >= n {
		return 0, 0, false
	}
	return s, e, true
}

func zLimit(l []zMS, off, cnt int) []zMS {
	if off < 0 || off >= len(l) {
		return nil
	}
	l = l[off:]
	if cnt >= 0 && cnt < len(l) {
		l = l[:cnt]
	}
	return l
}

// ---- ZRANGE / ZRANGESTORE selection ----

type zRangeQ struct {
	start, stop string
	mode        string // "", "score", "lex"
	rev         bool
	limit       bool
	off, cnt    int
	withScores  bool
}

func zParseRangeOpts(q *zRangeQ, opts []string) string {
	for i := 0; i < len(opts); i++ {
		switch strings.ToUpper(opts[i]) {
		case "BYSCORE":
			if q.mode == "lex" {
				return "BYSCORE with BYLEX"
			}
			q.mode = "score"
		case "BYLEX":
			if q.mode == "score" {
				return "BYSCORE with BYLEX"
			}
			q.mode = "lex"
		case "REV":
			q.rev = true
		case "WITHSCORES":
			q.withScores = true
		case "LIMIT":
			if i+2 >= len(opts) {
				return "LIMIT without offset and count"
			}
			o, ok1 := atoi(opts[i+1])
			c, ok2 := atoi(opts[i+2])
			if !ok1 || !ok2 {
				return "LIMIT offset/count not integers"
			}
			q.limit, q.off, q.cnt = true, o, c
			i += 2
		default:
			return "unknown option " + opts[i]
		}
	}
	return ""
}

// zLexPreds: the readings of a lexicographic range "min max".  Redis: "-", "+", "[v" inclusive, "(v" exclusive.  The
// SugarDB documentation only says "the lexicographical range between min and max", which also admits the plain
// reading min <= member <= max over the strings as given; both are accepted.  redisOK = the Redis reading parses.
func zLexPreds(min, max string) (preds []func(string) bool, redisOK bool) {
	lo, ok1 := zParseLexBound(min)
	hi, ok2 := zParseLexBound(max)
	if ok1 && ok2 {
		preds = append(preds, func(m string) bool { return zInLex(m, lo, hi) })
		redisOK = true
	}
	preds = append(preds, func(m string) bool { return m >= min && m <= max })
	return
}

// zSelect returns the acceptable selections (alternatives) for the query over the set, or an error text.
// errAlso = an error is acceptable as well (syntax outside what the documentation defines).
func zSelect(z map[string]float64, q zRangeQ) (alts [][]zMS, errText string, errAlso bool) {
	asc := zSorted(z)
	finish := func(l []zMS) []zMS {
		if q.rev {
			l = zRev(l)
		}
		if q.limit {
			l = zLimit(l, q.off, q.cnt)
		}
		return append([]zMS{}, l...)
	}
	// idxWindow is the reading the repository's tests pin for LIMIT ("offset and limit are where we start and stop
	// counting in the original sorted set, NOT THE RESULT"): positions offset..count of the whole ordered set, of which
	// the members inside the bounds are returned.
	idxWindow := func(base []zMS, in func(zMS) bool) []zMS {
		l := base
		if q.rev {
			l = zRev(base)
		}
		hi := q.cnt
		if q.cnt < 0 {
			hi = len(l) - 1
		}
		var sel []zMS
		for i := q.off; i <= hi && i < len(l); i++ {
			if i >= 0 && in(l[i]) {
				sel = append(sel, l[i])
			}
		}
		return append([]zMS{}, sel...)
	}
	byScore := func() bool {
		b1, ok1 := zParseScoreBound(q.start)
		b2, ok2 := zParseScoreBound(q.stop)
		if !ok1 || !ok2 {
			return false
		}
		if b1.excl || b2.excl {
			// "(v" exclusive bounds are a Redis convention the SugarDB documentation does not mention
			errAlso = true
		}
		pick := func(lo, hi zScoreBound) []zMS {
			var sel []zMS
			for _, e := range asc {
				if zInScore(e.s, lo, hi) {
					sel = append(sel, e)
				}
			}
			return finish(sel)
		}
		alts = append(alts, pick(b1, b2))
		if q.limit {
			alts = append(alts, idxWindow(asc, func(e zMS) bool { return zInScore(e.s, b1, b2) }))
		}
		if q.rev {
			// Redis reads "start stop" as "max min" under REV; the SugarDB documentation keeps "min max" and reverses
			alts = append(alts, pick(b2, b1))
			if q.limit {
				alts = append(alts, idxWindow(asc, func(e zMS) bool { return zInScore(e.s, b2, b1) }))
			}
		}
		return true
	}
	switch q.mode {
	case "":
		// Neither BYSCORE nor BYLEX: ranks in Redis.  The SugarDB documentation does not say what start/stop mean by
		// default and the property speaks of score and lexicographic bounds only: the score reading is accepted too.
		okRank := false
		s, ok1 := atoi(q.start)
		e, ok2 := atoi(q.stop)
		if ok1 && ok2 {
			okRank = true
			l := asc
			if q.rev {
				l = zRev(asc)
			}
			s, e, ok := zRankWindow(s, e, len(l))
			var sel []zMS
			if ok {
				sel = l[s : e+1]
			}
			if q.limit {
				sel = zLimit(sel, q.off, q.cnt)
			}
			alts = append(alts, append([]zMS{}, sel...))
		}
		okScore := byScore()
		if !okRank && !okScore {
			return nil, "start/stop are neither ranks nor scores", false
		}
		// LIMIT without BYSCORE/BYLEX: a syntax error in Redis, allowed by the documented SugarDB syntax
		return alts, "", errAlso || q.limit || !okRank
	case "score":
		if !byScore() {
			return nil, "min/max are not scores", false
		}
		return alts, "", errAlso
	case "lex":
		preds, redisOK := zLexPreds(q.start, q.stop)
		predsRev, _ := zLexPreds(q.stop, q.start)
		bases := [][]zMS{asc}
		if !zSameScore(z) {
			// "This option only works if all the members have the same score": with mixed scores the documented
			// outcome is nothing; the plain lexicographic filter (in score or in member order) is accepted too
			byMember := append([]zMS{}, asc...)
			sort.Slice(byMember, func(i, j int) bool { return byMember[i].m < byMember[j].m })
			bases = append(bases, byMember)
			alts = append(alts, nil)
		}
		all := preds
		if q.rev {
			all = append(append([]func(string) bool{}, preds...), predsRev...)
		}
		for _, base := range bases {
			for _, in := range all {
				var sel []zMS
				for _, e := range base {
					if in(e.m) {
						sel = append(sel, e)
					}
				}
				alts = append(alts, finish(sel))
				if q.limit {
					in := in
					lexBase := append([]zMS{}, base...)
					sort.Slice(lexBase, func(i, j int) bool { return lexBase[i].m < lexBase[j].m })
					alts = append(alts, idxWindow(lexBase, func(e zMS) bool { return in(e.m) }))
				}
			}
		}
		return alts, "", !redisOK
	}
	return nil, "", false
}

// ---- ZUNION / ZINTER / ZDIFF ----

type zSetOp struct {
	keys       []string
	weights    []float64
	agg        string
	withScores bool
}

func zParseSetOp(args []string, diff bool) (zSetOp, string) {
	op := zSetOp{agg: "SUM"}
	i := 0
	for ; i < len(args); i++ {
		if zIsKw(args[i], "WITHSCORES") || (!diff && zIsKw(args[i], "WEIGHTS", "AGGREGATE")) {
			break
		}
		op.keys = append(op.keys, args[i])
	}
	if len(op.keys) == 0 {
		return op, "no keys"
	}
	for i < len(args) {
		switch {
		case zIsKw(args[i], "WITHSCORES"):
			op.withScores = true
			i++
		case !diff && zIsKw(args[i], "WEIGHTS"):
			if op.weights != nil {
				return op, "WEIGHTS twice"
			}
			op.weights = []float64{}
			i++
			for i < len(args) && !zIsKw(args[i], "WITHSCORES", "WEIGHTS", "AGGREGATE") {
				w, ok := zParseScore(args[i])
				if !ok {
					return op, "weight is not a number"
				}
				op.weights = append(op.weights, w)
				i++
			}
			if len(op.weights) != len(op.keys) {
				return op, "number of weights differs from the number of keys"
			}
		case !diff && zIsKw(args[i], "AGGREGATE"):
			if i+1 >= len(args) || !zIsKw(args[i+1], "SUM", "MIN", "MAX") {
				return op, "AGGREGATE is not SUM, MIN or MAX"
			}
			op.agg = strings.ToUpper(args[i+1])
			i += 2
		default:
			return op, "unknown option " + args[i]
		}
	}
	return op, ""
}

// zCombine computes the result; plainSet = an operand is a plain set (Redis: score 1; not documented by SugarDB),
// wrong = an operand of another type, undef = a NaN arose.
func zCombine(db map[string]AVal, now int64, kind string, op zSetOp) (res map[string]float64, wrong, plainSet, undef, allMissing bool) {
	type operand struct {
		z      map[string]float64
		exists bool
	}
	var ops []operand
	allMissing = true
	for _, k := range op.keys {
		v, ok := aliveVal(db, k, now)
		o := operand{exists: ok, z: map[string]float64{}}
		if ok {
			allMissing = false
			switch v.Kind {
			case "zset":
				o.z = v.Z
			case "set":
				plainSet = true
				for _, m := range v.M {
					o.z[m] = 1
				}
			default:
				wrong = true
			}
		}
		ops = append(ops, o)
	}
	res = map[string]float64{}
	if wrong {
		return
	}
	w := func(i int) float64 {
		if op.weights == nil {
			return 1
		}
		return op.weights[i]
	}
	aggf := func(a, b float64) float64 {
		switch op.agg {
		case "MIN":
			return math.Min(a, b)
		case "MAX":
			return math.Max(a, b)
		}
		return a + b
	}
	switch kind {
	case "diff":
		for m, s := range ops[0].z {
			in := false
			for _, o := range ops[1:] {
				if _, ok := o.z[m]; ok {
					in = true
				}
			}
			if !in {
				res[m] = s
			}
		}
	case "union":
		for i, o := range ops {
			for m, s := range o.z {
				x := s * w(i)
				if old, ok := res[m]; ok {
					x = aggf(old, x)
				}
				res[m] = x
			}
		}
		// iteration order over an operand does not matter (one contribution per operand per member)
	case "inter":
		for m := range ops[0].z {
			var acc float64
			all := true
			for i, o := range ops {
				s, ok := o.z[m]
				if !ok {
					all = false
					break
				}
				x := s * w(i)
				if i == 0 {
					acc = x
				} else {
					acc = aggf(acc, x)
				}
			}
			if all {
				res[m] = acc
			}
		}
	}
	for _, s := range res {
		if math.IsNaN(s) {
			undef = true
		}
	}
	return
}

// ---- the reference step ----

func refZset(db map[string]AVal, a []string, now int64) *refExp {
	name := strings.ToUpper(a[0])
	if len(a) < 2 {
		return zErr("wrong number of arguments")
	}
	key := a[1]
	v, exists := aliveVal(db, key, now)
	wrong := exists && v.Kind != "zset"
	z := map[string]float64{}
	if exists && !wrong {
		z = zCopy(v.Z)
	}
	asc := zSorted(z)
	put := func(k string, nz map[string]float64) map[string]AVal {
		p := cloneDB(db)
		old := p[k]
		p[k] = AVal{Kind: "zset", Z: nz, Exp: old.Exp}
		return p
	}
	store := func(k string, nz map[string]float64) map[string]AVal {
		p := cloneDB(db)
		delete(p, k)
		if len(nz) > 0 {
			p[k] = AVal{Kind: "zset", Z: nz}
		}
		return p
	}
	intE := func(n int, post map[string]AVal) *refExp {
		return &refExp{reply: []func(StepOut) bool{rInt(int64(n))}, desc: fmt.Sprintf("the integer %d", n), post: post}
	}
	emptyOrNil := []func(StepOut) bool{rEmptyArr(), rNil()}
	// storeE: STORE forms replace the destination with res and reply its cardinality.  A destination holding another
	// type is overwritten in Redis; the SugarDB documentation does not say, an error (nothing changed) is accepted.
	storeE := func(dst string, res map[string]float64) *refExp {
		e := intE(len(res), store(dst, res))
		if dv, ok := aliveVal(db, dst, now); ok && dv.Kind != "zset" {
			e.reply = append(e.reply, rErr())
			e.postAlt = append(e.postAlt, db)
			e.desc += " with the destination replaced (or an error, the destination holding another type)"
		}
		return e
	}

	switch name {
	case "ZADD":
		var nx, xx, gt, lt, ch, incr bool
		i := 2
	flags:
		for ; i < len(a); i++ {
			switch strings.ToUpper(a[i]) {
			case "NX":
				nx = true
			case "XX":
				xx = true
			case "GT":
				gt = true
			case "LT":
				lt = true
			case "CH":
				ch = true
			case "INCR":
				incr = true
			default:
				break flags
			}
		}
		rest := a[i:]
		if len(rest) == 0 || len(rest)%2 != 0 {
			return zErr("score/member pairs incomplete")
		}
		if (nx && xx) || (gt && lt) || ((gt || lt) && nx) {
			return zErr("contradictory flags")
		}
		if incr && len(rest) != 2 {
			return zErr("INCR with several pairs")
		}
		var pairs []zMS
		for j := 0; j < len(rest); j += 2 {
			s, ok := zParseScore(rest[j])
			if !ok {
				return zErr("score is not a number")
			}
			pairs = append(pairs, zMS{rest[j+1], s})
		}
		if wrong {
			return zErr("not a sorted set")
		}
		if incr {
			p := pairs[0]
			old, has := z[p.m]
			// "INCR modifies the command to act like ZINCRBY" (reply: the new score, nil when a condition prevents the
			// update); ZADD itself is documented to reply the number of members added (changed too with CH): both accepted
			abort := &refExp{reply: []func(StepOut) bool{rNil(), rInt(0), rNum(old)}, desc: "nil, 0 or the unchanged score (the condition prevents the update)"}
			if (has && nx) || (!has && xx) {
				return abort
			}
			ns := p.s
			if has {
				ns = old + p.s
			}
			if math.IsNaN(ns) {
				return zErr("resulting score is not a number")
			}
			if has && ((gt && !(ns > old)) || (lt && !(ns < old))) {
				return abort
			}
			z[p.m] = ns
			cnt := int64(0)
			if !has || (ch && ns != old) {
				cnt = 1
			}
			return &refExp{reply: []func(StepOut) bool{rNum(ns), rInt(cnt)}, desc: fmt.Sprintf("the new score %s (or the count %d)", fmtFloat(ns), cnt), post: put(key, z)}
		}
		added, changed, same := 0, 0, 0
		for _, p := range pairs {
			old, has := z[p.m]
			if !has {
				if xx {
					continue
				}
				z[p.m] = p.s
				added++
				continue
			}
			if !nx && !gt && !lt && p.s == old {
				same++ // rewritten with the score it already has: whether CH counts it is not specified
			}
			if nx || (gt && !(p.s > old)) || (lt && !(p.s < old)) || p.s == old {
				continue
			}
			z[p.m] = p.s
			changed++
		}
		n := added
		if ch {
			n += changed
		}
		e := intE(n, put(key, z))
		if !ch && !xx && changed > 0 {
			// the repository's tests pin that a plain ZADD also counts the members whose score changed
			e.reply = append(e.reply, rInt(int64(added+changed)))
			e.desc += fmt.Sprintf(" (or %d, counting changed scores as the repository's tests do)", added+changed)
		}
		if ch && same > 0 {
			e.reply = append(e.reply, rInt(int64(n+same)))
			e.desc += fmt.Sprintf(" (or %d, counting members rewritten with an equal score)", n+same)
		}
		return e

	case "ZINCRBY":
		if len(a) != 4 {
			return zErr("wrong number of arguments")
		}
		inc, ok := zParseScore(a[2])
		if !ok {
			return zErr("increment is not a number")
		}
		if wrong {
			return zErr("not a sorted set")
		}
		ns := inc
		if old, has := z[a[3]]; has {
			ns = old + inc
		}
		if math.IsNaN(ns) {
			return zErr("resulting score is not a number")
		}
		z[a[3]] = ns
		return &refExp{reply: []func(StepOut) bool{rNum(ns)}, desc: "the new score " + fmtFloat(ns), post: put(key, z)}

	case "ZCARD":
		if len(a) != 2 {
			return zErr("wrong number of arguments")
		}
		if wrong {
			return zErr("not a sorted set")
		}
		return intE(len(z), nil)

	case "ZCOUNT", "ZREMRANGEBYSCORE":
		if len(a) != 4 {
			return zErr("wrong number of arguments")
		}
		if wrong {
			return zErr("not a sorted set")
		}
		lo, ok1 := zParseScoreBound(a[2])
		hi, ok2 := zParseScoreBound(a[3])
		if !ok1 || !ok2 {
			return zErrOr("min/max are not scores", !exists, "0", rInt(0))
		}
		n := 0
		for _, e := range asc {
			if zInScore(e.s, lo, hi) {
				n++
				if name == "ZREMRANGEBYSCORE" {
					delete(z, e.m)
				}
			}
		}
		var e *refExp
		if name == "ZCOUNT" {
			e = intE(n, nil)
		} else {
			e = intE(n, put(key, z))
		}
		if lo.excl || hi.excl {
			// "(v" exclusive bounds are a Redis convention the SugarDB documentation does not mention
			e.reply = append(e.reply, rErr())
			e.postAlt = append(e.postAlt, db)
			e.desc += " (or an error: exclusive bounds are not documented)"
		}
		return e

	case "ZLEXCOUNT", "ZREMRANGEBYLEX":
		if len(a) != 4 {
			return zErr("wrong number of arguments")
		}
		if wrong {
			return zErr("not a sorted set")
		}
		preds, redisOK := zLexPreds(a[2], a[3])
		var e *refExp
		var ds []string
		for _, in := range preds {
			nz := zCopy(z)
			n := 0
			for _, x := range asc {
				if in(x.m) {
					n++
					delete(nz, x.m)
				}
			}
			var post map[string]AVal
			if name == "ZREMRANGEBYLEX" {
				post = put(key, nz)
			}
			ds = append(ds, fmt.Sprint(n))
			if e == nil {
				e = intE(n, post)
				continue
			}
			e.reply = append(e.reply, rInt(int64(n)))
			if post != nil {
				e.postAlt = append(e.postAlt, post)
			}
		}
		e.desc = "the count " + strings.Join(zUniq(ds), " or ") + " (Redis bound syntax or plain strings)"
		if !redisOK {
			e.reply = append(e.reply, rErr())
			e.postAlt = append(e.postAlt, db)
		}
		if !zSameScore(v.Z) {
			// documented: 0 when the members do not all have the same score; the plain lexicographic count is accepted too
			e.reply = append(e.reply, rInt(0))
			e.postAlt = append(e.postAlt, db)
			e.desc += " (or 0 and nothing removed: the scores differ)"
		}
		return e

	case "ZREMRANGEBYRANK":
		if len(a) != 4 {
			return zErr("wrong number of arguments")
		}
		if wrong {
			return zErr("not a sorted set")
		}
		s, ok1 := atoi(a[2])
		e, ok2 := atoi(a[3])
		if !ok1 || !ok2 {
			return zErrOr("start/stop are not integers", !exists, "0", rInt(0))
		}
		n := len(asc)
		outOfRange := s < -n || s >= n || e < -n || e >= n
		s, e, ok := zRankWindow(s, e, n)
		ex := intE(0, nil)
		if ok {
			for _, x := range asc[s : e+1] {
				delete(z, x.m)
			}
			ex = intE(e-s+1, put(key, z))
		}
		if outOfRange {
			// Redis clamps ranks outside the set; the documentation does not say: refusing them is accepted
			ex.reply = append(ex.reply, rErr())
			ex.postAlt = append(ex.postAlt, db)
			ex.desc += " (or an error: rank outside the set)"
		}
		return ex

	case "ZSCORE":
		if len(a) != 3 {
			return zErr("wrong number of arguments")
		}
		if wrong {
			return zErr("not a sorted set")
		}
		s, has := z[a[2]]
		if !has {
			return &refExp{reply: []func(StepOut) bool{rNil()}, desc: "nil"}
		}
		return &refExp{reply: []func(StepOut) bool{rNum(s)}, desc: "the score " + fmtFloat(s)}

	case "ZMSCORE":
		if len(a) < 3 {
			return zErr("wrong number of arguments")
		}
		if wrong {
			return zErr("not a sorted set")
		}
		ms := a[2:]
		match := func(o StepOut) bool {
			if !zIsArr(o.V) || len(o.V.Arr) != len(ms) {
				return false
			}
			for i, m := range ms {
				s, has := z[m]
				if has && !zNumEq(o.V.Arr[i], s) {
					return false
				}
				if !has && !(o.V.Arr[i].Nul && len(o.V.Arr[i].Arr) == 0) {
					return false
				}
			}
			return true
		}
		e := &refExp{reply: []func(StepOut) bool{match}, desc: "one score or nil per member"}
		if !exists {
			e.reply = append(e.reply, rNil(), rEmptyArr())
		}
		return e

	case "ZRANK", "ZREVRANK":
		if len(a) != 3 && len(a) != 4 {
			return zErr("wrong number of arguments")
		}
		if wrong {
			return zErr("not a sorted set")
		}
		ws := len(a) == 4
		if ws && !zIsKw(a[3], "WITHSCORE") {
			return zErrOr("unknown option", !exists, "nil", rNil(), rEmptyArr())
		}
		s, has := z[a[2]]
		if !has {
			return &refExp{reply: []func(StepOut) bool{rNil(), rEmptyArr()}, desc: "nil"}
		}
		rank := 0
		for i, e := range asc {
			if e.m == a[2] {
				rank = i
			}
		}
		if name == "ZREVRANK" {
			rank = len(asc) - 1 - rank
		}
		if !ws {
			ex := intE(rank, nil)
			ex.reply = append(ex.reply, func(o StepOut) bool {
				return zIsArr(o.V) && len(o.V.Arr) == 1 && o.V.Arr[0].K == ':' && o.V.Arr[0].I == int64(rank)
			})
			return ex
		}
		return &refExp{reply: []func(StepOut) bool{func(o StepOut) bool {
			return zIsArr(o.V) && len(o.V.Arr) == 2 && zNumEq(o.V.Arr[0], float64(rank)) && zNumEq(o.V.Arr[1], s)
		}}, desc: fmt.Sprintf("[%d %s]", rank, fmtFloat(s))}

	case "ZREM":
		if len(a) < 3 {
			return zErr("wrong number of arguments")
		}
		if wrong {
			return zErr("not a sorted set")
		}
		n := 0
		for _, m := range a[2:] {
			if _, has := z[m]; has {
				delete(z, m)
				n++
			}
		}
		return intE(n, put(key, z))

	case "ZPOPMIN", "ZPOPMAX":
		if len(a) != 2 && len(a) != 3 {
			return zErr("wrong number of arguments")
		}
		if wrong {
			return zErr("not a sorted set")
		}
		cnt := 1
		if len(a) == 3 {
			c, ok := atoi(a[2])
			if !ok {
				return zErrOr("count is not an integer", !exists, "an empty array", emptyOrNil...)
			}
			if c < 0 {
				// Redis 7: an error; earlier versions: nothing popped
				return &refExp{reply: append([]func(StepOut) bool{rErr()}, emptyOrNil...), desc: "an error or an empty array (negative count), dataset unchanged"}
			}
			cnt = c
		}
		l := asc
		if name == "ZPOPMAX" {
			l = zRev(asc)
		}
		if cnt > len(l) {
			cnt = len(l)
		}
		popped := l[:cnt]
		for _, e := range popped {
			delete(z, e.m)
		}
		ex := &refExp{reply: []func(StepOut) bool{zPopReply("", false, popped)}, desc: "the popped " + zFmt(popped), post: put(key, z)}
		if len(popped) == 0 {
			ex.reply = append(ex.reply, rNil())
		}
		return ex

	case "ZMPOP":
		// SugarDB syntax: ZMPOP key [key ...] <MIN | MAX> [COUNT count]
		hasPolicy := false
		for _, x := range a[1:] {
			if zIsKw(x, "MIN", "MAX") {
				hasPolicy = true
			}
		}
		if !hasPolicy {
			// the documented syntax requires MIN or MAX; the repository's tests pin a default of MIN, under which every
			// argument is a key name - not judged
			return nil
		}
		var keys []string
		i := 1
		for ; i < len(a) && !zIsKw(a[i], "MIN", "MAX"); i++ {
			keys = append(keys, a[i])
		}
		// state of the operands
		anyWrong, allMissing := false, true
		firstIdx := -1 // first non-empty sorted set
		wrongBefore := false
		for j, k := range keys {
			kv, ok := aliveVal(db, k, now)
			if !ok {
				continue
			}
			allMissing = false
			if kv.Kind != "zset" {
				anyWrong = true
				if firstIdx < 0 {
					wrongBefore = true
				}
				continue
			}
			if firstIdx < 0 && len(kv.Z) > 0 {
				firstIdx = j
			}
		}
		invalid := ""
		cnt := 1
		switch {
		case len(keys) == 0:
			invalid = "no keys"
		case i >= len(a):
			invalid = "MIN or MAX missing"
		case len(a)-i == 1:
		case len(a)-i == 3 && zIsKw(a[i+1], "COUNT"):
			c, ok := atoi(a[i+2])
			if !ok {
				invalid = "count is not an integer"
			} else if c <= 0 {
				invalid = "count is not positive"
			}
			cnt = c
		default:
			invalid = "syntax"
		}
		if invalid != "" {
			if invalid == "count is not positive" && !anyWrong {
				// Redis: an error; nothing popped is equally harmless
				return &refExp{reply: append([]func(StepOut) bool{rErr()}, emptyOrNil...), desc: "an error or nothing popped (" + invalid + "), dataset unchanged"}
			}
			if anyWrong {
				return zErr(invalid)
			}
			return zErrOr(invalid, allMissing, "nil", emptyOrNil...)
		}
		if wrongBefore || (anyWrong && firstIdx < 0) {
			return zErr("an operand is not a sorted set")
		}
		if firstIdx < 0 {
			return &refExp{reply: emptyOrNil, desc: "nil (nothing to pop)"}
		}
		k := keys[firstIdx]
		kz := zCopy(db[k].Z)
		l := zSorted(kz)
		if zIsKw(a[i], "MAX") {
			l = zRev(l)
		}
		if cnt > len(l) {
			cnt = len(l)
		}
		popped := l[:cnt]
		for _, e := range popped {
			delete(kz, e.m)
		}
		ex := &refExp{reply: []func(StepOut) bool{zPopReply(k, true, popped)}, desc: fmt.Sprintf("%q with the popped %s", k, zFmt(popped)), post: put(k, kz)}
		if anyWrong {
			// a later operand holds another type: failing instead (without changing anything) is within the property
			ex.reply = append(ex.reply, rErr())
			ex.postAlt = append(ex.postAlt, db)
			ex.desc += " (or an error and nothing changed: a later operand is not a sorted set)"
		}
		return ex

	case "ZRANDMEMBER":
		return &refExp{random: true}

	case "ZRANGE":
		if len(a) < 4 {
			return zErr("wrong number of arguments")
		}
		if wrong {
			return zErr("not a sorted set")
		}
		q := zRangeQ{start: a[2], stop: a[3]}
		if bad := zParseRangeOpts(&q, a[4:]); bad != "" {
			return zErrOr(bad, !exists, "an empty array", emptyOrNil...)
		}
		alts, bad, errAlso := zSelect(z, q)
		if bad != "" {
			return zErrOr(bad, !exists, "an empty array", emptyOrNil...)
		}
		ex := &refExp{}
		var ds []string
		for _, l := range alts {
			ex.reply = append(ex.reply, zListing(l, q.withScores))
			ds = append(ds, zFmt(l))
		}
		ex.desc = "the listing " + strings.Join(zUniq(ds), " or ")
		if !exists {
			ex.reply = append(ex.reply, rNil())
		}
		if errAlso {
			ex.reply = append(ex.reply, rErr())
			ex.desc += " (or an error: syntax outside the documentation)"
		}
		return ex

	case "ZRANGESTORE":
		if len(a) < 5 {
			return zErr("wrong number of arguments")
		}
		dst, src := a[1], a[2]
		sv, sexists := aliveVal(db, src, now)
		if sexists && sv.Kind != "zset" {
			return zErr("source is not a sorted set")
		}
		q := zRangeQ{start: a[3], stop: a[4]}
		if bad := zParseRangeOpts(&q, a[5:]); bad != "" {
			return zErrOr(bad, !sexists, "0", rInt(0), rEmptyArr(), rNil())
		}
		if q.withScores {
			return nil
		}
		alts, bad, errAlso := zSelect(sv.Z, q)
		if bad != "" {
			return zErrOr(bad, !sexists, "0", rInt(0), rEmptyArr(), rNil())
		}
		var ex *refExp
		var ds []string
		for _, l := range alts {
			e := storeE(dst, zMap(l))
			ds = append(ds, zFmt(l))
			if ex == nil {
				ex = e
				continue
			}
			ex.reply = append(ex.reply, e.reply...)
			ex.postAlt = append(ex.postAlt, e.post)
		}
		ex.desc = "the cardinality of the stored selection " + strings.Join(zUniq(ds), " or ")
		if errAlso {
			ex.reply = append(ex.reply, rErr())
			ex.postAlt = append(ex.postAlt, db)
		}
		if q.mode == "lex" && !zSameScore(sv.Z) {
			// BYLEX "only works if all the members have the same score": not storing anything is accepted
			ex.postAlt = append(ex.postAlt, db)
		}
		if sexists && len(sv.Z) == 0 {
			// an emptied source behaves like an absent one: nothing to store, the destination may be left
			ex.postAlt = append(ex.postAlt, db)
		}
		if !sexists {
			// absent source: Redis removes the destination; the documentation does not say, leaving it is accepted,
			// and so is the miss reply in array form
			ex.reply = append(ex.reply, rEmptyArr(), rNil())
			ex.postAlt = append(ex.postAlt, db)
			ex.desc += " (absent source: 0 or an empty array, destination removed or left)"
		}
		return ex

	case "ZUNION", "ZINTER", "ZDIFF", "ZUNIONSTORE", "ZINTERSTORE", "ZDIFFSTORE":
		isStore := strings.HasSuffix(name, "STORE")
		kind := map[byte]string{'U': "union", 'I': "inter", 'D': "diff"}[name[1]]
		args := a[1:]
		dst := ""
		if isStore {
			dst, args = a[1], a[2:]
		}
		op, bad := zParseSetOp(args, kind == "diff")
		var res map[string]float64
		var opWrong, plainSet, undef, allMissing bool
		if len(op.keys) > 0 {
			res, opWrong, plainSet, undef, allMissing = zCombine(db, now, kind, zSetOp{keys: op.keys, agg: "SUM"})
		}
		if bad != "" {
			if opWrong || plainSet || len(op.keys) == 0 {
				return zErr(bad)
			}
			if isStore {
				return zErrOr(bad, allMissing, "0", rInt(0))
			}
			return zErrOr(bad, allMissing, "an empty array", emptyOrNil...)
		}
		if isStore && op.withScores {
			return nil
		}
		res, opWrong, plainSet, undef, allMissing = zCombine(db, now, kind, op)
		if opWrong {
			if !zStrictWrongTypeAfterAbsent {
				// an absent operand that empties the result comes before the first operand of another type
				for i, k := range op.keys {
					kv, ok := aliveVal(db, k, now)
					if ok && kv.Kind != "zset" && kv.Kind != "set" {
						break
					}
					if !ok && (kind == "inter" || (kind == "diff" && i == 0)) {
						e := zErr("an operand is not a sorted set")
						e.desc += " (or the empty result: an earlier operand is absent)"
						if isStore {
							e.reply = append(e.reply, rInt(0))
							e.postAlt = append(e.postAlt, store(dst, nil))
						} else {
							e.reply = append(e.reply, emptyOrNil...)
						}
						return e
					}
				}
			}
			return zErr("an operand is not a sorted set")
		}
		if undef {
			return nil
		}
		// absentEmpties: the result is empty because an operand is absent (ZDIFF: the first; ZINTER: any; ZUNION: all)
		absentEmpties := allMissing
		for i, k := range op.keys {
			if _, ok := aliveVal(db, k, now); !ok && (kind == "inter" || (kind == "diff" && i == 0)) {
				absentEmpties = true
			}
		}
		var ex *refExp
		if isStore {
			ex = storeE(dst, res)
			if absentEmpties {
				// "If the base set (first key) does not exist, return 0" (ZDIFFSTORE): Redis removes the destination, the
				// documentation does not say; leaving it untouched is accepted
				ex.postAlt = append(ex.postAlt, db)
				ex.desc += " (absent operand: destination removed or left)"
			}
			if name == "ZDIFFSTORE" && len(op.keys) == 1 {
				// documented syntax: ZDIFFSTORE destination key1 key2
				ex.reply = append(ex.reply, rErr())
				ex.postAlt = append(ex.postAlt, db)
				ex.desc += " (or an error: a single key)"
			}
		} else {
			l := zSorted(res)
			ex = &refExp{reply: []func(StepOut) bool{zListing(l, op.withScores)}, desc: "the listing " + zFmt(l)}
			if !zStrictSetOpOrder {
				ex.reply = append(ex.reply, zBag(l, op.withScores))
				ex.desc += " (in any order)"
			}
			if allMissing {
				ex.reply = append(ex.reply, rNil())
			}
		}
		if plainSet {
			// Redis treats a plain set as a sorted set with scores 1; SugarDB does not document it
			ex.reply = append(ex.reply, rErr())
			ex.postAlt = append(ex.postAlt, db)
			ex.desc += " (or an error: an operand is a plain set)"
		}
		return ex
	}
	return nil
}

// zRandom judges ZRANDMEMBER key [count [WITHSCORES]].
func zRandom(pre map[string]AVal, a []string, o StepOut, post map[string]AVal) string {
	if dbKey(normText(normEmpty(post))) != dbKey(normText(normEmpty(pre))) {
		return "the dataset changed: " + firstN(dbKey(normText(normEmpty(post))), 300)
	}
	if o.PErr != "" || o.Empty {
		return "no well-formed reply"
	}
	if len(a) < 2 || len(a) > 4 {
		if !o.V.IsErr() {
			return "the reference expects an error (wrong number of arguments)"
		}
		return ""
	}
	v, exists := pre[a[1]]
	if exists && v.Kind != "zset" {
		if !o.V.IsErr() {
			return "the reference expects an error (not a sorted set)"
		}
		return ""
	}
	z := v.Z
	isMiss := func() bool { return o.V.Nul || (zIsArr(o.V) && len(o.V.Arr) == 0) }
	hasCount, ws, cnt := len(a) >= 3, false, 1
	bad := ""
	if hasCount {
		c, ok := atoi(a[2])
		if !ok {
			bad = "count is not an integer"
		}
		cnt = c
	}
	if len(a) == 4 {
		if !zIsKw(a[3], "WITHSCORES") {
			bad = "unknown option"
		}
		ws = true
	}
	if bad != "" {
		if o.V.IsErr() || (!exists && isMiss()) {
			return ""
		}
		return "the reference expects an error (" + bad + ")"
	}
	if o.V.IsErr() {
		return "the reference expects a selection, not an error"
	}
	if !hasCount {
		if len(z) == 0 {
			if !isMiss() {
				return "the reference expects nil (no members)"
			}
			return ""
		}
		el := o.V
		for zIsArr(el) && len(el.Arr) == 1 {
			el = el.Arr[0] // the member itself or a list holding it ("a list of length equivalent to count")
		}
		if el.Nul || zIsArr(el) {
			return "the reference expects one member"
		}
		if _, ok := z[el.S]; !ok || (el.K != '$' && el.K != '+') {
			return fmt.Sprintf("%q is not a member", el.Text())
		}
		return ""
	}
	want := cnt
	if cnt > 0 && cnt > len(z) {
		want = len(z)
	}
	if cnt < 0 {
		want = -cnt
	}
	if len(z) == 0 {
		want = 0
	}
	if want == 0 {
		if !isMiss() {
			return "the reference expects an empty array"
		}
		return ""
	}
	if !zIsArr(o.V) {
		return "the reference expects an array"
	}
	var ms, ss []RV
	if ws {
		var ok bool
		ms, ss, ok = zPairsOf(o.V)
		if !ok {
			return "the reply is not a member/score listing"
		}
	} else {
		for _, e := range o.V.Arr {
			if zIsArr(e) && len(e.Arr) == 1 {
				e = e.Arr[0]
			}
			ms = append(ms, e)
		}
	}
	if len(ms) != want {
		return fmt.Sprintf("%d members returned, the reference expects %d", len(ms), want)
	}
	seen := map[string]bool{}
	for i, m := range ms {
		if m.Nul || zIsArr(m) || (m.K != '$' && m.K != '+') {
			return "an element is not a member name"
		}
		s, ok := z[m.S]
		if !ok {
			return fmt.Sprintf("%q is not a member", m.S)
		}
		if cnt > 0 && seen[m.S] {
			return fmt.Sprintf("%q returned twice with a positive count", m.S)
		}
		seen[m.S] = true
		if ws && !zNumEq(ss[i], s) {
			return fmt.Sprintf("score %s returned for %q whose score is %s", ss[i].String(), m.S, fmtFloat(s))
		}
	}
	return ""
}

// zSig groups the divergences of two root causes that the repository's own tests pin (so they are recorded, not
// repaired): ZMPOP skips keys that hold another type, and ZUNIONSTORE drops every argument spelled like the destination.
func zSig(db map[string]AVal, a []string, kind string, now int64) string {
	name := strings.ToUpper(a[0])
	switch name {
	case "ZMPOP":
		for _, k := range a[1:] {
			if zIsKw(k, "MIN", "MAX", "COUNT") {
				break
			}
			if v, ex := aliveVal(db, k, now); ex && v.Kind != "zset" {
				return kind + "|ZMPOP with a key of another type (skipped instead of refused)"
			}
		}
	case "ZUNIONSTORE":
		if len(a) > 2 {
			for _, k := range a[2:] {
				if k == a[1] {
					return kind + "|ZUNIONSTORE with the destination among the sources (the source is dropped from the operands)"
				}
			}
		}
	}
	return ""
}
