package main

import (
	"encoding/json"
	"fmt"
	"strings"
	"time"
)

// C08 — max-memory policy: who may be evicted, in what order, and when.
//
// SEQ search under each of the seven policies with a limit chosen so that the
// (k+1)-th reference key crosses it (the limit is the implementation's own
// reported usage after k keys).  Every command is preceded by a 1 ms clock
// step, so recency is strict and deterministic (the heaps read the virtual
// clock).  The server's REPORTED usage u is what the policy is judged against.
// Per transition:
//   noeviction : nothing disappears; a write is refused iff u >= L when it starts
//   others     : keys disappear only in a step in which usage reached L; victims are candidates of the policy
//                (volatile-*: keys with a deadline); LRU: every victim was accessed no later than every surviving
//                candidate; LFU: no more often; eviction stops as soon as u < L (no superfluous victim)
//   always     : an evicted key is gone from store, volatile index and both heaps; untouched survivors unchanged;
//                no panic, no hang (the eviction worker runs in a spawned goroutine).

type c08Check struct{}

func init() { register("C08", c08Check{}) }

func (c08Check) Describe() CheckInfo {
	return CheckInfo{
		Level: "model_checking",
		Rule: "explicit-state BFS over the real dispatcher with asynchronous cache/eviction goroutines brought to quiescence after every action: 7 policies x limits {usage after 2 keys, after 3 keys} x histories over {SET k1..k4 (two sizes, with/without deadline), GET, TOUCH, DEL, FLUSHDB}; " +
			"reference = access history (last access step, access count) replayed from the path + the policy rules of the property; non-trivial = distinct (state, action).",
		Assumptions: []string{"GET, SET and TOUCH count as accesses; the clock advances 1 ms before each command", "judged against the server's reported memory figure (its drift is C19's subject)"},
	}
}

type c08Args struct {
	Sched  bool
	Policy string
	K      int // limit = usage after K reference keys
	Shard  int
	Shards int
	Depth  int
	Warm   int // >0: start from four keys with distinct access counts/times (usage exactly at a four-key limit), variant Warm
}

// c08Warm: four keys at the limit with distinct access frequencies and recencies - the state from which deleting the
// coldest key and then growing a hot one tells whether the eviction order survives removals from the middle of the heap.
func c08Warm(volatile bool, variant int) []Action {
	set := func(k string) Action {
		if volatile {
			return tcmd("SET", k, "v", "EX", "1000")
		}
		return tcmd("SET", k, "v")
	}
	// extra accesses per key (k1..k4) after the four writes: which key is hot, and therefore the heap layout, differs
	freq := [][4]int{{3, 0, 2, 1}, {1, 0, 3, 2}, {2, 0, 1, 3}, {0, 3, 1, 2}, {3, 1, 2, 0}}[variant-1]
	out := []Action{set("k1"), set("k2"), set("k3"), set("k4")}
	for round := 0; round < 3; round++ {
		for i, k := range []string{"k1", "k2", "k3", "k4"} {
			if freq[i] > round {
				out = append(out, tcmd("GET", k))
			}
		}
	}
	return out
}

var c08Policies = []string{"noeviction", "allkeys-lru", "allkeys-lfu", "volatile-lru", "volatile-lfu", "allkeys-random", "volatile-random"}

func (c08Check) Units(tier string, seed int64) []Unit {
	var us []Unit
	depth := 3
	shards := 4
	if tier == "thorough" {
		depth, shards = 4, 12
	}
	// scheduler facet: write admission under noeviction with usage one key below the limit, two concurrent writers
	{
		b, _ := json.Marshal(c08Args{Sched: true})
		us = append(us, Unit{Name: "sched-noeviction-admission", Args: b})
	}
	for _, p := range c08Policies {
		for _, k := range []int{2, 3} {
			for s := 0; s < shards; s++ {
				b, _ := json.Marshal(c08Args{Policy: p, K: k, Shard: s, Shards: shards, Depth: depth})
				us = append(us, Unit{Name: fmt.Sprintf("%s-k%d-depth%d-shard%d", p, k, depth, s), Args: b})
			}
		}
	}
	for _, p := range []string{"allkeys-lfu", "allkeys-lru", "volatile-lfu", "volatile-lru"} {
		for v := 1; v <= 5; v++ {
			b, _ := json.Marshal(c08Args{Policy: p, K: 5, Shard: 0, Shards: 1, Depth: depth - 1, Warm: v})
			us = append(us, Unit{Name: fmt.Sprintf("%s-warm%d-k5-depth%d", p, v, depth-1), Args: b})
		}
	}
	return us
}

func tcmd(args ...string) Action { return Action{K: "tcmd", A: args} }

func c08Alphabet() []Action {
	var a []Action
	for _, k := range []string{"k1", "k2", "k3", "k4"} {
		a = append(a, tcmd("SET", k, "v"), tcmd("SET", k, "v", "EX", "1000"), tcmd("GET", k), tcmd("TOUCH", k))
	}
	a = append(a, tcmd("SET", "k1", strings.Repeat("x", 40)), tcmd("DEL", "k2"), tcmd("DEL", "k1"), tcmd("DEL", "k3"), tcmd("DEL", "k4"), tcmd("FLUSHDB"), tcmd("MGET", "k1", "k3"),
		// multi-key accesses in both orders (one key may be volatile, the other not)
		tcmd("MGET", "k2", "k1"), tcmd("TOUCH", "k1", "k2"), tcmd("TOUCH", "k3", "k1"))
	return a
}

var c08Limits = map[int]uint64{}

func c08Limit(k int) uint64 {
	if l, ok := c08Limits[k]; ok {
		return l
	}
	w, err := newWorld(InstCfg{})
	if err != nil {
		panic(err)
	}
	defer w.Close()
	for i := 1; i <= k; i++ {
		w.Do(cmd("SET", fmt.Sprintf("k%d", i), "v"))
	}
	l := uint64(w.State().Dump.MemUsed)
	c08Limits[k] = l
	return l
}

// access history replayed from the path (accesses to keys that do not exist do not count)
type c08Hist struct {
	last   map[string]int
	cnt    map[string]int
	exists map[string]bool
}

func c08Replay(path []Action) c08Hist {
	h := c08Hist{last: map[string]int{}, cnt: map[string]int{}, exists: map[string]bool{}}
	touch := func(k string, i int) {
		if h.exists[k] {
			h.last[k] = i + 1
			h.cnt[k]++
		}
	}
	for i, a := range path {
		if a.K != "tcmd" {
			continue
		}
		switch strings.ToUpper(a.A[0]) {
		case "SET":
			h.exists[a.A[1]] = true
			touch(a.A[1], i)
		case "GET":
			touch(a.A[1], i)
		case "MGET", "TOUCH":
			for _, k := range a.A[1:] {
				touch(k, i)
			}
		case "DEL":
			delete(h.last, a.A[1])
			delete(h.cnt, a.A[1])
			delete(h.exists, a.A[1])
		case "FLUSHDB":
			h = c08Hist{last: map[string]int{}, cnt: map[string]int{}, exists: map[string]bool{}}
		}
	}
	return h
}

func (c08Check) Run(u Unit, w *Worker) UnitResult {
	var a c08Args
	json.Unmarshal(u.Args, &a)
	res := UnitResult{Stats: map[string]int64{}}
	if a.Sched {
		bound := 2
		if u.Tier == "thorough" {
			bound = 3
		}
		for _, sc := range []*SchedScenario{
			{Name: "noeviction admission: SET k2 v || SET k3 v at one key below the limit", Cfg: InstCfg{Policy: "noeviction", MaxMemory: c08Limit(2)},
				Setup: []Action{cmd("SET", "k1", "v")}, Threads: [][]Action{{cmd("SET", "k2", "v")}, {cmd("SET", "k3", "v")}}, Bound: bound, MaxExec: 60000, TrackMem: true},
			{Name: "noeviction admission: SET k2 v || MSET k3 v k4 v at one key below the limit", Cfg: InstCfg{Policy: "noeviction", MaxMemory: c08Limit(2)},
				Setup: []Action{cmd("SET", "k1", "v")}, Threads: [][]Action{{cmd("SET", "k2", "v")}, {cmd("MSET", "k3", "v", "k4", "v")}}, Bound: bound, MaxExec: 60000, TrackMem: true},
		} {
			if w.Case(sc.Name) {
				judgeScenario("C08", sc, &res)
			}
		}
		return res
	}
	alpha := c08Alphabet()
	L := c08Limit(a.K)
	cfg := InstCfg{Policy: a.Policy, MaxMemory: L, EvictionIntvMs: 1000 * 3600 * 24 * 365}
	volatileOnly := strings.HasPrefix(a.Policy, "volatile")
	spec := &SeqSpec{Prop: "C08", Cfg: cfg, Depth: a.Depth, Deadline: 20 * time.Minute,
		Alphabet: func(pre *State, depth int) []Action { return alpha }}
	var curWorld *World
	leakedBefore := 0
	spec.Before = func(wld *World) { curWorld = wld; leakedBefore = wld.in.leaked }
	spec.Check = func(path []Action, pre *State, act Action, out StepOut, post *State) []Finding {
		var fs []Finding
		name := strings.ToUpper(act.A[0])
		shape := name
		if name == "SET" && len(act.A) > 3 {
			shape = "SET-EX"
		}
		add := func(kind, detail string) {
			fs = append(fs, Finding{Prop: "C08", Kind: kind, Sig: fmt.Sprintf("%s|%s|%s", a.Policy, kind, shape),
				Detail: fmt.Sprintf("[%s, limit %d = usage after %d keys] after [%s] (usage %d): %s -> %s: %s", a.Policy, L, a.K, pathString(path), pre.Dump.MemUsed, act, out.Brief(), detail)})
		}
		if out.Panic != "" {
			add("panic", "the server panicked: "+firstLine(out.Panic)+" at "+panicSite(out.Panic))
			return fs
		}
		if post == nil {
			return fs
		}
		if wld := curWorld; wld != nil && wld.in.leaked > leakedBefore {
			add("goroutine-leak", fmt.Sprintf("%d goroutine(s) of the cache-update/eviction step are blocked for ever in a channel send (nobody receives): leaked on every such command", wld.in.leaked-leakedBefore))
		}
		res.Stats["policy_checks"]++
		preA, postA := pre.Alpha[0], post.Alpha[0]
		uPre, uPost := pre.Dump.MemUsed, post.Dump.MemUsed
		// keys the command itself removes / writes
		own := map[string]bool{}
		switch name {
		case "DEL", "SET", "GET":
			own[act.A[1]] = true
		case "MGET", "TOUCH":
			for _, k := range act.A[1:] {
				own[k] = true
			}
		}
		var removed []string
		for k := range preA {
			if _, ok := postA[k]; !ok {
				if name == "FLUSHDB" || (name == "DEL" && own[k]) {
					continue
				}
				removed = append(removed, k)
			}
		}
		sizeOf := func(k string) int64 { e := pre.Dump.Store[0][k]; return e.Mem + 16 + int64(len(k)) }
		if a.Policy == "noeviction" {
			if len(removed) > 0 {
				add("key-removed", fmt.Sprintf("keys %v disappeared under noeviction", removed))
			}
			if name == "SET" {
				refused := out.V.IsErr()
				if uint64(uPre) >= L && !refused {
					add("write-admitted-at-limit", fmt.Sprintf("usage %d >= limit %d but the write was accepted", uPre, L))
				}
				if uint64(uPre) < L && refused {
					add("write-refused-below-limit", fmt.Sprintf("usage %d < limit %d but the write was refused", uPre, L))
				}
				if refused {
					if d := alphaDiff(pre.Alpha, post.Alpha, nil); len(d) > 0 {
						add("refused-write-changed-state", strings.Join(d, "; "))
					}
					if uPost != uPre {
						add("refused-write-changed-usage", fmt.Sprintf("the refused write moved the reported usage from %d to %d although nothing was written", uPre, uPost))
					}
				}
			}
		} else if len(removed) > 0 {
			res.Stats["steps_with_eviction"]++
			var freed, minSz int64
			for i, k := range removed {
				s := sizeOf(k)
				freed += s
				if i == 0 || s < minSz {
					minSz = s
				}
			}
			// highest figure the eviction loop can have seen: usage before the command plus everything the command wrote
			// (an overwrite is added in full without subtracting the old entry - C19)
			var wrote int64
			for k := range own {
				if e, ok := post.Dump.Store[0][k]; ok && (name == "SET") {
					wrote += e.Mem + 16 + int64(len(k))
				} else if name == "SET" {
					wrote = int64(L) // the written key itself was evicted: its size is not observable any more
				}
			}
			if uint64(uPre+wrote) < L && uint64(uPost+freed) < L {
				add("evicted-below-limit", fmt.Sprintf("keys %v were removed although usage never reached the limit (usage before the command %d, written %d)", removed, uPre, wrote))
			}
			if uint64(uPost) >= L {
				// allowed only if no candidate is left
				left := 0
				for k, v := range postA {
					if !volatileOnly || v.Exp != 0 {
						_ = k
						left++
					}
				}
				if left > 0 {
					add("stopped-above-limit", fmt.Sprintf("eviction removed %v but usage %d is still >= limit with %d candidates left", removed, uPost, left))
				}
			} else if _, overwrite := preA[act.A[1]]; len(removed) > 1 && uint64(uPost+minSz) < L && !(name == "SET" && overwrite) {
				// (an overwrite double-counts the key in the reported figure - C19 - so the figure seen by the eviction loop is not reconstructible)
				add("superfluous-victim", fmt.Sprintf("eviction removed %v: usage %d would already have been under the limit with one victim fewer", removed, uPost))
			}
			// the order rules are judged only on histories without an earlier eviction (the replayed access history
			// does not see evictions): the keys the replay believes to exist must be the keys that existed
			hp := c08Replay(path)
			orderJudgeable := len(hp.exists) == len(preA)
			for k := range hp.exists {
				if _, ok := preA[k]; !ok {
					orderJudgeable = false
				}
			}
			if !orderJudgeable {
				res.Stats["order_checks_skipped_after_earlier_eviction"]++
			}
			h := c08Replay(append(append([]Action{}, path...), act))
			for _, v := range removed {
				if volatileOnly && preA[v].Exp == 0 && !(own[v] && name == "SET") {
					add("non-volatile-victim", fmt.Sprintf("key %s has no deadline but was evicted", v))
				}
				for s, sv := range postA {
					if volatileOnly && sv.Exp == 0 {
						continue
					}
					switch {
					case !orderJudgeable:
					case strings.HasSuffix(a.Policy, "lru"):
						if h.last[v] > h.last[s] {
							add("lru-order", fmt.Sprintf("victim %s was accessed at step %d, later than survivor %s (step %d)", v, h.last[v], s, h.last[s]))
						}
					case strings.HasSuffix(a.Policy, "lfu"):
						if h.cnt[v] > h.cnt[s] {
							add("lfu-order", fmt.Sprintf("victim %s was used %d times, more than survivor %s (%d times)", v, h.cnt[v], s, h.cnt[s]))
						}
					}
				}
				// gone completely
				bk, _ := json.Marshal([]any{post.Dump.KeysWithExpiry[0], post.Dump.LFU[0], post.Dump.LRU[0]})
				if strings.Contains(string(bk), `"`+v+`"`) {
					add("victim-left-in-bookkeeping", fmt.Sprintf("evicted key %s is still referenced by the volatile index or a heap", v))
				}
			}
		}
		// untouched survivors unchanged
		for k, v := range postA {
			if own[k] || name == "FLUSHDB" {
				continue
			}
			if pv, ok := preA[k]; ok && pv.String() != v.String() {
				add("survivor-changed", fmt.Sprintf("key %s changed from %s to %s", k, pv, v))
			}
		}
		return fs
	}
	var root []Action
	if a.Warm > 0 {
		root = c08Warm(strings.HasPrefix(a.Policy, "volatile"), a.Warm)
		// memory pressure that does not come from a new key: a hot key grows (three keys + this one cross the five-key limit)
		big := tcmd("SET", "k1", strings.Repeat("y", 120))
		if strings.HasPrefix(a.Policy, "volatile") {
			big = tcmd("SET", "k1", strings.Repeat("y", 120), "EX", "1000")
		}
		alpha = append(append([]Action{}, alpha...), big)
	}
	runSeq(spec, root, func(i int) bool { return i%a.Shards == a.Shard }, w, &res)
	res.Samples = append(res.Samples, map[string]any{"policy": a.Policy, "limit": L, "limit_keys": a.K, "depth": a.Depth, "alphabet": len(alpha)})
	return res
}
