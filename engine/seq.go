package main

import (
	"encoding/json"
	"fmt"
	"runtime/debug"
	"strings"
	"time"

	"github.com/echovault/sugardb/sugardb"
	"github.com/echovault/sugardb/verifrt"
)

// ---- actions and worlds ----

// Action is one symbol of an alphabet.
type Action struct {
	K string   // "cmd" (on connection C) | "emb" (embedded caller) | "adv" (advance clock N ms) | "tick" (sampler tick db N) |
	//            "snap" (synchronous snapshot) | "rewrite" (synchronous AOF rewrite) | "restart" (clean stop + start with restore) | "raw" (raw bytes on C)
	C int      `json:",omitempty"`
	A []string `json:",omitempty"`
	N int64    `json:",omitempty"`
}

func cmd(args ...string) Action          { return Action{K: "cmd", A: args} }
func cmdOn(c int, args ...string) Action { return Action{K: "cmd", C: c, A: args} }
func emb(args ...string) Action          { return Action{K: "emb", A: args} }
func adv(ms int64) Action                { return Action{K: "adv", N: ms} }

func (a Action) String() string {
	switch a.K {
	case "cmd", "tcmd":
		if a.C != 0 {
			return fmt.Sprintf("c%d:%s", a.C, quoteArgs(a.A))
		}
		return quoteArgs(a.A)
	case "emb":
		return "emb:" + quoteArgs(a.A)
	case "adv":
		return fmt.Sprintf("+%dms", a.N)
	case "tick":
		return fmt.Sprintf("tick(db%d)", a.N)
	case "embsel":
		return fmt.Sprintf("emb:SelectDB(%d)", a.N)
	}
	return a.K
}

func quoteArgs(a []string) string {
	parts := make([]string, len(a))
	for i, s := range a {
		if s != "" && !strings.ContainsAny(s, " \r\n\x00\"") {
			parts[i] = s
		} else {
			parts[i] = fmt.Sprintf("%q", s)
		}
	}
	return strings.Join(parts, " ")
}

func pathString(p []Action) string {
	parts := make([]string, len(p))
	for i, a := range p {
		parts[i] = a.String()
	}
	return strings.Join(parts, " ; ")
}

// StepOut is the observable result of one action.
type StepOut struct {
	Raw    []byte
	V      RV     // parsed reply (if Raw parses as exactly one value)
	PErr   string // parse error of Raw ("" if fine or empty)
	Empty  bool   // no bytes at all
	Panic  string
	Hang   bool
	Err    string // error returned by a synchronous engine call
	Others [][]byte // bytes received by each connection during the action (index = connection; the issuer's own are in Raw)
}

func (o StepOut) Brief() string {
	switch {
	case o.Panic != "":
		return "PANIC(" + firstLine(o.Panic) + ")"
	case o.Hang:
		return "HANG"
	case o.Err != "":
		return "ERR(" + o.Err + ")"
	case o.Empty:
		return "<no reply>"
	case o.PErr != "":
		return fmt.Sprintf("MALFORMED(%s: %q)", o.PErr, firstN(string(o.Raw), 80))
	}
	return o.V.String()
}

func firstLine(s string) string {
	if i := strings.IndexByte(s, '\n'); i >= 0 {
		return s[:i]
	}
	return s
}

type State struct {
	Dump  sugardb.VerifDump
	Alpha Alpha
	NowMs int64
	Key   string // hash of the full concrete state + clock
}

// World is a fresh instance plus the virtual environment, built by replaying a path.
type World struct {
	cfg  InstCfg
	in   *Instance
	fs   *verifrt.MemFS
	path []Action
}

func resetEnv(seed int64) {
	verifrt.ResetTracking()
	verifrt.UseVirtualClock()
	verifrt.SeedRand(seed)
}

func newWorld(cfg InstCfg) (*World, error) {
	resetEnv(1)
	w := &World{cfg: cfg}
	// always an in-memory file system: even without a data directory the server writes files (SAVE puts a snapshot
	// under ./snapshots), and nothing a check does may touch the real disk or leak from one run into the next
	w.fs = verifrt.NewMemFS()
	verifrt.SetFS(w.fs)
	in, err := newInstance(cfg)
	if err != nil {
		return nil, err
	}
	w.in = in
	return w, nil
}

func (w *World) Close() {
	if w.in != nil {
		w.in.Close()
	}
}

func (w *World) Dead() bool { return w.in.dead }

func (w *World) State() *State {
	d := w.in.Dump()
	now := verifrt.Now().UnixMilli()
	st := &State{Dump: d, Alpha: alphaOf(d), NowMs: now}
	fh := ""
	if w.fs != nil {
		fh = fsHash(verifrt.FS())
	}
	b, err := json.Marshal(struct {
		D sugardb.VerifDump
		N int64
		F string
	}{d, now, fh})
	if err != nil {
		panic(err)
	}
	st.Key = hashJSON(string(b))
	return st
}

func outOfReply(r Reply) StepOut {
	o := StepOut{Raw: r.Raw, Panic: r.Panic, Hang: r.Hang}
	if len(r.Raw) == 0 {
		o.Empty = true
		return o
	}
	v, err := parseExact(r.Raw)
	if err != nil {
		o.PErr = err.Error()
	} else {
		o.V = v
	}
	return o
}

func (w *World) Do(a Action) StepOut {
	switch a.K {
	case "cmd":
		o := outOfReply(w.in.Do(a.C, a.A...))
		o.Others = w.in.TakeAll(a.C)
		return o
	case "tcmd": // timed command: the clock moves 1 ms first, so that every command has its own instant
		verifrt.Advance(time.Millisecond, nil)
		return outOfReply(w.in.Do(a.C, a.A...))
	case "raw":
		return outOfReply(w.in.DoRaw(a.C, []byte(a.A[0])))
	case "emb":
		o := outOfReply(w.in.Embedded(a.A...))
		o.Others = w.in.TakeAll(-1)
		return o
	case "adv":
		hung := false
		verifrt.Advance(time.Duration(a.N)*time.Millisecond, func() {
			if !w.in.Quiesce() {
				hung = true
			}
		})
		if !w.in.Quiesce() {
			hung = true
		}
		o := StepOut{Empty: true, Hang: hung}
		if w.in.dead && !hung {
			o.Panic = strings.Join(w.in.panics, "\n")
		}
		return o
	case "tick":
		err, p, h := w.in.Call(func() error { return w.in.db.VerifSamplerTick(int(a.N)) })
		o := StepOut{Empty: true, Panic: p, Hang: h}
		if err != nil {
			o.Err = err.Error()
		}
		return o
	case "snap":
		// two snapshots never share a millisecond on a real clock (the snapshot directory is named after it)
		verifrt.Advance(time.Millisecond, nil)
		err, p, h := w.in.Call(func() error { return w.in.db.VerifTakeSnapshot() })
		o := StepOut{Empty: true, Panic: p, Hang: h}
		if err != nil {
			o.Err = err.Error()
		}
		return o
	case "rewrite":
		err, p, h := w.in.Call(func() error { return w.in.db.VerifRewriteAOF() })
		o := StepOut{Empty: true, Panic: p, Hang: h}
		if err != nil {
			o.Err = err.Error()
		}
		return o
	case "embsel":
		err, p, h := w.in.Call(func() error { return w.in.db.SelectDB(int(a.N)) })
		o := StepOut{Empty: true, Panic: p, Hang: h}
		if err != nil {
			o.Err = err.Error()
		}
		return o
	case "snap-restart":
		o := w.Do(Action{K: "snap"})
		if o.Panic != "" || o.Hang {
			return o
		}
		o2 := w.Do(Action{K: "restart"})
		if o.Err != "" && o2.Err == "" {
			o2.Err = "snapshot: " + o.Err
		}
		return o2
	case "restart":
		// clean stop, then a new instance on the same file system with restore enabled per cfg
		w.in.Shutdown()
		verifrt.ResetTracking()
		in, err, pan := safeNewInstance(w.cfg)
		if pan != "" {
			w.in.dead, w.in.deadWhy = true, "panic"
			return StepOut{Empty: true, Panic: pan}
		}
		if err != nil {
			w.in.dead, w.in.deadWhy = true, "start-up error"
			return StepOut{Empty: true, Err: err.Error()}
		}
		w.in = in
		if in.dead {
			return StepOut{Empty: true, Panic: strings.Join(in.panics, "\n"), Hang: in.deadWhy == "hang"}
		}
		return StepOut{Empty: true}
	}
	panic("unknown action kind " + a.K)
}

func buildWorld(cfg InstCfg, path []Action) (*World, []StepOut, error) {
	w, err := newWorld(cfg)
	if err != nil {
		return nil, nil, err
	}
	outs := make([]StepOut, 0, len(path))
	for _, a := range path {
		outs = append(outs, w.Do(a))
	}
	w.path = append([]Action(nil), path...)
	return w, outs, nil
}

// ---- explicit-state search over the real step function ----

type SeqSpec struct {
	Prop     string
	Cfg      InstCfg
	Depth    int
	Alphabet func(pre *State, depth int) []Action
	// Check judges one transition; path is the action sequence that led to pre.
	Check func(path []Action, pre *State, a Action, out StepOut, post *State) []Finding
	// Before is called with the live world just before an action is executed.
	Before func(w *World)
	// CheckW is like Check but also receives the live world (in the post-state).
	CheckW func(w *World, path []Action, pre *State, a Action, out StepOut, post *State) []Finding
	// Expand says whether post may be expanded further (state-size caps).
	Expand func(post *State) bool
	// Deadline bounds the wall time of a unit (0 = none).
	Deadline time.Duration
	NoDedup  bool
}

type seqStats struct {
	transitions, pureReuse, rebuilds, states, cut, dead int64
	maxDepth                                            int64
}

// runSeq explores from root (a path that is replayed, not checked) up to spec.Depth further actions.
// firstOnly, if non-nil, restricts the first level to these action indices (sharding).
func runSeq(spec *SeqSpec, root []Action, firstFilter func(i int) bool, w *Worker, res *UnitResult) {
	start := time.Now()
	seen := map[string]bool{}
	type node struct {
		path  []Action
		depth int
	}
	frontier := []node{{path: root, depth: 0}}
	st := seqStats{}
	hashes := map[string]struct{}{}
	addFinding := func(f Finding) {
		res.Findings = append(res.Findings, f)
	}
	for len(frontier) > 0 {
		n := frontier[0]
		frontier = frontier[1:]
		if spec.Deadline > 0 && time.Since(start) > spec.Deadline {
			res.Capped = fmt.Sprintf("unit deadline %s reached with %d frontier nodes left at depth %d", spec.Deadline, len(frontier)+1, n.depth)
			break
		}
		var wld *World
		var pre *State
		build := func() bool {
			var err error
			wld, _, err = buildWorld(spec.Cfg, n.path)
			st.rebuilds++
			if err != nil || wld.Dead() {
				return false
			}
			pre = wld.State()
			return true
		}
		if !build() {
			if wld != nil {
				wld.Close()
			}
			continue
		}
		if n.depth == 0 {
			seen[pre.Key] = true
			hashes[pre.Key] = struct{}{}
		}
		alpha := spec.Alphabet(pre, n.depth)
		for i, a := range alpha {
			if n.depth == 0 && firstFilter != nil && !firstFilter(i) {
				continue
			}
			caseID := pathString(append(append([]Action{}, n.path...), a))
			if !w.Case(caseID) {
				continue
			}
			if wld == nil {
				if !build() {
					break
				}
			}
			if spec.Before != nil {
				spec.Before(wld)
			}
			out := wld.Do(a)
			st.transitions++
			if out.Hang {
				// the only place real time enters a verdict: confirm twice more on fresh instances before believing it
				confirmed := true
				for try := 0; try < 2 && confirmed; try++ {
					w2, _, err := buildWorld(spec.Cfg, n.path)
					if err != nil || w2.Dead() {
						break
					}
					if o2 := w2.Do(a); !o2.Hang {
						confirmed = false
					}
				}
				if !confirmed {
					res.Notes = append(res.Notes, "watchdog tripped once but not on re-execution (load): "+sigOfAction(a))
					res.HangCase = caseID // still restart the worker (a goroutine may be spinning), but report nothing
					res.Stats["unconfirmed_hangs"]++
					flushSeq(res, &st, hashes)
					return
				}
				addFinding(Finding{Prop: spec.Prop, Sig: "hang|" + sigOfAction(a), Kind: "hang",
					Detail: "command did not return within the watchdog: " + caseID, Replay: replayOf(spec.Cfg, n.path, a), Cost: len(n.path)})
				res.HangCase = caseID
				flushSeq(res, &st, hashes)
				return
			}
			var post *State
			if !wld.Dead() {
				post = wld.State()
			}
			var found []Finding
			if spec.Check != nil {
				found = spec.Check(n.path, pre, a, out, post)
			}
			if spec.CheckW != nil {
				found = append(found, spec.CheckW(wld, n.path, pre, a, out, post)...)
			}
			for _, f := range found {
				if f.Replay == nil {
					f.Replay = replayOf(spec.Cfg, n.path, a)
				}
				f.Cost = len(n.path)*1000 + len(a.A)
				addFinding(f)
			}
			if wld.Dead() {
				st.dead++
				wld.Close()
				wld = nil
				continue
			}
			if post.Key == pre.Key {
				st.pureReuse++
				continue // state unchanged: keep using this world
			}
			hashes[post.Key] = struct{}{}
			if int64(n.depth+1) > st.maxDepth {
				st.maxDepth = int64(n.depth + 1)
			}
			if n.depth+1 < spec.Depth && (spec.NoDedup || !seen[post.Key]) {
				if spec.Expand == nil || spec.Expand(post) {
					seen[post.Key] = true
					frontier = append(frontier, node{path: append(append([]Action{}, n.path...), a), depth: n.depth + 1})
				} else {
					st.cut++
				}
			}
			wld.Close()
			wld = nil
		}
		if wld != nil {
			wld.Close()
		}
	}
	flushSeq(res, &st, hashes)
}

func flushSeq(res *UnitResult, st *seqStats, hashes map[string]struct{}) {
	if res.Stats == nil {
		res.Stats = map[string]int64{}
	}
	res.Stats["transitions"] += st.transitions
	res.Stats["rebuilds"] += st.rebuilds
	res.Stats["pure_reuse"] += st.pureReuse
	res.Stats["cut_by_cap"] += st.cut
	res.Stats["dead_instances"] += st.dead
	if st.maxDepth > res.Stats["max_depth"] {
		res.Stats["max_depth"] = st.maxDepth
	}
	for h := range hashes {
		res.Hashes = append(res.Hashes, h)
	}
}

type SeqReplay struct {
	Cfg  InstCfg
	Path []Action
	Last Action
}

func replayOf(cfg InstCfg, path []Action, a Action) any {
	return SeqReplay{Cfg: cfg, Path: append([]Action{}, path...), Last: a}
}

func sigOfAction(a Action) string {
	if len(a.A) > 0 {
		return strings.ToUpper(a.A[0])
	}
	return a.K
}

// safeNewInstance starts an instance, capturing a panic of the start-up path (restore runs inside NewSugarDB).
func safeNewInstance(cfg InstCfg) (in *Instance, err error, pan string) {
	defer func() {
		if p := recover(); p != nil {
			pan = fmt.Sprintf("%v\n%s", p, debug.Stack())
		}
	}()
	in, err = newInstance(cfg)
	return
}
