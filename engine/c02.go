package main

import (
	"encoding/json"
	"fmt"
	"strconv"
	"strings"

	"github.com/echovault/sugardb/verifrt"
)

// C02 — append-only log: acknowledged writes survive restart and crash.
//
// CRASH explorer.  Histories = seed prefix + every sequence of <= n writes over
// an alphabet covering every data type, both callers (connection / embedded),
// databases 0, 1, 12 and a clock advance; x sync policy always / everysec / no.
// Crash images P (every journal prefix) and T (every byte of every torn write),
// thorough also D (unsynced writes dropped).  Oracle (differential, the
// in-memory states of the same run are the semantic reference):
//   - recovered dataset = dataset after some prefix j of the history, j <= commands started,
//     and under `always` j >= number of acknowledged commands
//   - start-up never fails/panics
//   - no crash: a clean restart reproduces the final dataset exactly (keys, kinds, values, deadlines, databases)
//   - durable again: after recovery one more acknowledged write and a clean restart yield recovered + that write

type c02Check struct{}

func init() { register("C02", c02Check{}) }

func (c02Check) Describe() CheckInfo {
	return CheckInfo{
		Level: "fault_enumeration",
		Rule: "histories: seed prefix + all sequences up to the tier's length over the write alphabet (one write per data type, TCP and embedded callers, databases 0/1/12, +3 s clock advance) x sync policy {always, everysec, no}; " +
			"for each history every journal prefix, every byte-prefix of every write (torn record) and (thorough) every subset of unsynced writes dropped is recovered by a fresh server with AOF restore, " +
			"then one more acknowledged write and a clean restart. Distinct non-trivial cases = distinct image contents; outcomes = distinct recovered datasets.",
		Assumptions: []string{"persistence model: operations reach the disk in program order unless dropped as unsynced; fsync makes earlier writes of that file durable",
			"the everysec ticker is a virtual ticker fired by the clock-advance action"},
	}
}

type c02Args struct {
	Sync  string
	First int // index of the first alphabet action of the histories of this unit
	Len   int
	Drop  bool
	Sched int // >0: scheduler scenario number Sched-1 (concurrent writers, then a restart from the log)
}

func c02Alphabet() []Action {
	return []Action{
		cmd("SET", "a", "1"), cmd("SET", "a", "v", "EX", "100"), cmd("MSET", "a", "m", "b", "2"), cmd("INCR", "n"), cmd("DEL", "a"),
		cmd("EXPIRE", "a", "100"), cmd("HSET", "h", "f", "v"), cmd("LPUSH", "l", "x"), cmd("RPOP", "l"), cmd("SADD", "t", "m"),
		cmd("ZADD", "z", "1", "m"), cmd("RENAME", "a", "b"), cmd("FLUSHDB"), cmd("SELECT", "1"), cmd("SELECT", "12"),
		emb("SET", "a", "emb"), {K: "embsel", N: 12}, adv(3000),
		// writes that mutate although they reply 0 / nothing new
		cmd("DECR", "a"), cmd("HSET", "h", "f", "w"), cmd("ZADD", "z", "2", "m"), cmd("LSET", "l", "0", "q"),
	}
}

func c02Seed() []Action { return []Action{cmd("SET", "a", "0"), cmd("RPUSH", "l", "y", "z")} }

func (c02Check) Units(tier string, seed int64) []Unit {
	var us []Unit
	add := func(n int, drop bool) {
		for _, s := range []string{"always", "everysec", "no"} {
			for f := range c02Alphabet() {
				b, _ := json.Marshal(c02Args{Sync: s, First: f, Len: n, Drop: drop})
				us = append(us, Unit{Name: fmt.Sprintf("%s-first%d-len%d-drop%v", s, f, n, drop), Args: b})
			}
		}
	}
	// concurrent writers in different databases: every interleaving must leave a log that restores what some serial order
	// restores (the scenarios are shared with C20)
	for i := range c20SchedScenarios(tier) {
		b, _ := json.Marshal(c02Args{Sched: i + 1})
		us = append(us, Unit{Name: fmt.Sprintf("sched-%d", i), Args: b})
	}
	if tier == "thorough" {
		add(3, false) // P+T over histories of length <= 3
		add(2, true)  // P+T+D over histories of length <= 2
	} else {
		add(2, false)
	}
	return us
}

func histNames(h []Action) string {
	var p []string
	for _, a := range h {
		switch a.K {
		case "cmd":
			p = append(p, strings.ToUpper(a.A[0]))
		case "emb":
			p = append(p, "emb:"+strings.ToUpper(a.A[0]))
		default:
			p = append(p, a.String())
		}
	}
	return strings.Join(p, ",")
}

// sameIgnoringDeadlines compares two datasets with deadlines blanked.
func stripDeadlines(a Alpha) Alpha {
	out := Alpha{}
	for db, m := range a {
		out[db] = map[string]AVal{}
		for k, v := range m {
			v.Exp = 0
			out[db][k] = v
		}
	}
	return out
}

func (c02Check) Run(u Unit, w *Worker) UnitResult {
	var a c02Args
	json.Unmarshal(u.Args, &a)
	res := UnitResult{Stats: map[string]int64{}}
	if a.Sched > 0 {
		sc := c20SchedScenarios(u.Tier)[a.Sched-1]
		if w.Case(sc.Name) {
			judgeScenario("C02", sc, &res)
		}
		return res
	}
	cfg := InstCfg{DataDir: "/data", RestoreAOF: true, AOFSync: a.Sync}
	alpha := c02Alphabet()
	outcomes := map[string]struct{}{}
	var rec func(h []Action)
	rec = func(h []Action) {
		c02History(cfg, a, h, w, &res, outcomes)
		if len(h) < a.Len {
			for _, x := range alpha {
				rec(append(append([]Action{}, h...), x))
			}
		}
	}
	rec([]Action{alpha[a.First]})
	for o := range outcomes {
		res.Outcomes = append(res.Outcomes, o)
	}
	return res
}

func c02History(cfg InstCfg, a c02Args, tail []Action, w *Worker, res *UnitResult, outcomes map[string]struct{}) {
	aofHistory("C02", cfg, c02Seed(), tail, a.Drop, w, res, outcomes)
}

// rewriteIndex returns the index of the first REWRITE action of hist (-1 if none).
func rewriteIndex(hist []Action) int {
	for i, x := range hist {
		if x.K == "rewrite" {
			return i
		}
	}
	return -1
}

// looseKey renders a dataset so that values whose kind cannot survive the JSON preamble compare by presence only.
func looseKey(a Alpha) string {
	out := Alpha{}
	for db, m := range a {
		out[db] = map[string]AVal{}
		for k, v := range m {
			switch v.Kind {
			case "string", "int", "float":
				f := v.S
				if v.Kind != "string" {
					if x, err := strconv.ParseFloat(v.S, 64); err == nil {
						f = fmtFloat(x)
					}
				}
				out[db][k] = AVal{Kind: "scalar", S: f, Exp: v.Exp}
			default:
				out[db][k] = AVal{Kind: "collection", Exp: v.Exp}
			}
		}
	}
	return out.String()
}

// aofHistory runs one history on the journalling file system and judges every crash image (shared by C02 and C09).
func aofHistory(prop string, cfg InstCfg, seed, tail []Action, drop bool, w *Worker, res *UnitResult, outcomes map[string]struct{}) {
	hist := append(append([]Action{}, seed...), tail...)
	if !w.Case(cfg.AOFSync + ": " + pathString(hist)) {
		return
	}
	run, wld, err := runHistory(cfg, nil, hist)
	for try := 0; err == nil && try < 2 && len(run.Outs) > 0 && run.Outs[len(run.Outs)-1].Hang; try++ {
		wld.Close()
		res.Stats["hang_retries"]++
		run, wld, err = runHistory(cfg, nil, hist) // confirm a watchdog verdict before believing it
	}
	if err != nil {
		res.EngineError = "runHistory: " + err.Error()
		return
	}
	wld.Close()
	res.Stats["histories"]++
	shape := fmt.Sprintf("sync=%s|h=[%s]", cfg.AOFSync, histNames(tail))
	_ = shape
	if len(run.Ack) != len(hist) || run.Ack[len(run.Ack)-1] < 0 {
		res.Findings = append(res.Findings, Finding{Prop: prop, Kind: "panic", Sig: "history-died|" + shape,
			Detail: "the history did not complete: " + run.Outs[len(run.Outs)-1].Brief(), Replay: map[string]any{"cfg": cfg, "history": hist}})
		return
	}
	// datasets after each prefix (index j = after j commands of hist); index 0 = empty
	pref := []Alpha{{}}
	for _, st := range run.States {
		pref = append(pref, st.Alpha)
	}
	nowMs := run.EndNow
	from := run.Begin[len(seed)]
	total := run.enumImages(crashOpts{Torn: true, Drop: drop, MaxDrop: 5, From: from, To: -1}, func(img CrashImage) {
		if ri := rewriteIndex(hist); ri >= 0 && len(img.Dropped) > 0 && img.Dropped[0] < run.Begin[ri] {
			return // C09 judges the rewrite: writes that were never durable before it began are C02's subject
		}
		res.Stats["distinct_images"]++
		res.Hashes = append(res.Hashes, img.Hash)
		rec := recoverImage(cfg, img.FS)
		started := img.Acked
		if img.Action >= 0 {
			started = img.Action + 1
		}
		lo := 0
		if cfg.AOFSync == "always" {
			lo = img.Acked
		}
		if ri := rewriteIndex(hist); ri >= 0 && img.Cut > run.Begin[ri] && lo < ri {
			// C09: from the moment a rewrite has begun, everything acknowledged before it began must be restorable
			lo = ri
		}
		final := img.Cut >= len(run.Journal) && len(img.Dropped) == 0 && img.Torn < 0
		if final {
			lo = len(hist) // no crash: clean restart must reproduce everything
		}
		report := func(kind, detail string) {
			op := img.OpDesc
			if i := strings.Index(op, " dropped["); i >= 0 {
				op = op[:i] + " +dropped-unsynced"
			}
			inflight := "between-commands"
			if img.Action >= 0 {
				inflight = "in:" + histNames(hist[img.Action:img.Action+1])
			}
			if final {
				inflight, op = "clean-restart", "end"
			}
			sig := fmt.Sprintf("aof|sync=%s|%s|at %s|%s", cfg.AOFSync, inflight, op, kind)
			if kind == "deadline-moved" {
				// which relative-expiry commands were replayed, and whether time passed before the restore
				var rel []string
				advd := false
				for _, x := range hist {
					switch {
					case x.K == "adv":
						advd = true
					case len(x.A) > 0 && (strings.EqualFold(x.A[0], "EXPIRE") || strings.EqualFold(x.A[0], "PEXPIRE")):
						rel = append(rel, strings.ToUpper(x.A[0]))
					case len(x.A) > 3 && strings.EqualFold(x.A[0], "SET") && (strings.EqualFold(x.A[3], "EX") || strings.EqualFold(x.A[3], "PX")):
						rel = append(rel, "SET-"+strings.ToUpper(x.A[3]))
					}
				}
				rs := map[string]bool{}
				for _, r := range rel {
					rs[r] = true
				}
				sig = fmt.Sprintf("aof|deadline-moved|relative=%v|clock-advanced=%v", sortedKeys(rs), advd)
			}
			if kind == "retyped-by-preamble" {
				kinds := map[string]bool{}
				for _, m := range run.States[len(run.States)-1].Alpha {
					for _, v := range m {
						if v.Kind != "string" && v.Kind != "int" && v.Kind != "float" {
							kinds[v.Kind] = true
						}
					}
				}
				for _, st := range run.States {
					for _, m := range st.Alpha {
						for _, v := range m {
							if v.Kind != "string" && v.Kind != "int" && v.Kind != "float" {
								kinds[v.Kind] = true
							}
						}
					}
				}
				sig = fmt.Sprintf("aof|retyped-by-preamble|kinds=%v", sortedKeys(kinds))
			}
			res.Findings = append(res.Findings, Finding{Prop: prop, Kind: kind, Sig: sig,
				Detail: fmt.Sprintf("[%s] history [%s], crash at %s (acked %d, started %d): %s", cfg.AOFSync, pathString(hist), img.OpDesc, img.Acked, started, detail),
				Replay: map[string]any{"cfg": cfg, "history": hist, "cut": img.Cut, "torn": img.Torn, "dropped": img.Dropped}, Cost: len(hist)*100000 + img.Cut})
		}
		if rec.World != nil {
			defer rec.World.Close()
		}
		switch {
		case rec.Panic != "" || rec.Hang:
			report("start-up-panic", "recovery panicked/hung: "+firstLine(rec.Panic))
			return
		case rec.StartErr != "":
			report("start-up-failed", "recovery failed: "+rec.StartErr)
			return
		}
		got := rec.Alpha.DropExpired(nowMs).String()
		outcomes[hashJSON(got)] = struct{}{}
		match, matchNoDl := -1, -1
		for j := started; j >= 0; j-- {
			if pref[j].DropExpired(nowMs).String() == got && match < 0 {
				match = j
			}
			if stripDeadlines(pref[j].DropExpired(nowMs)).String() == stripDeadlines(rec.Alpha.DropExpired(nowMs)).String() && matchNoDl < 0 {
				matchNoDl = j
			}
		}
		switch {
		case match >= lo:
			// fine
		case match >= 0:
			report("lost-acked", fmt.Sprintf("recovered the dataset after %d commands but %d were acknowledged: %q", match, lo, got))
		case matchNoDl >= lo:
			report("deadline-moved", fmt.Sprintf("recovered dataset matches prefix %d except for expiry deadlines: got %q want %q", matchNoDl, got, pref[matchNoDl].DropExpired(nowMs).String()))
		case rewriteIndex(hist) >= 0 && looseMatch(pref, started, lo, rec.Alpha.DropExpired(nowMs)):
			report("retyped-by-preamble", fmt.Sprintf("after a rewrite the restored dataset has the right keys and scalar values but other kinds/values: got %q, prefix datasets %v", got, prefList(pref[lo:started+1], nowMs)))
		default:
			report("not-a-prefix", fmt.Sprintf("recovered dataset %q is not the dataset of any prefix (prefix datasets: %v)", got, prefList(pref[:started+1], nowMs)))
		}
		// durable again
		if rec.World != nil && !rec.World.Dead() {
			o := rec.World.Do(cmd("SET", "zz", "after"))
			for try := 0; o.Hang && try < 2; try++ {
				// watchdog verdicts are confirmed on fresh recoveries before they are believed
				r2 := recoverImage(cfg, img.FS)
				if r2.World == nil {
					break
				}
				o = r2.World.Do(cmd("SET", "zz", "after"))
				if !o.Hang {
					res.Stats["unconfirmed_hangs"]++
					rec.World = r2.World
				}
			}
			if o.V.IsErr() || o.Panic != "" || o.Hang || o.Empty {
				report("write-after-recovery-failed", "SET after recovery replied "+o.Brief())
				return
			}
			mid := rec.World.State().Alpha.DropExpired(nowMs).String()
			o2 := rec.World.Do(Action{K: "restart"})
			for try := 0; o2.Hang && try < 2; try++ {
				res.Stats["hang_retries"]++
				r2 := recoverImage(cfg, img.FS)
				if r2.World == nil {
					break
				}
				r2.World.Do(cmd("SET", "zz", "after"))
				o2 = r2.World.Do(Action{K: "restart"})
				rec.World = r2.World
			}
			if o2.Panic != "" || o2.Hang || rec.World.Dead() {
				report("second-start-up-panic", "restart after recovery+write: "+o2.Brief())
				return
			}
			after := rec.World.State().Alpha.DropExpired(nowMs).String()
			res.Stats["durable_again_checks"]++
			if after != mid {
				k := "not-durable-after-recovery"
				if stripDeadlines(rec.World.State().Alpha.DropExpired(nowMs)).String() == "" {
					k = "everything-lost-after-recovery"
				}
				report(k, fmt.Sprintf("after recovery, an acknowledged SET zz and a clean restart: dataset %q, expected %q", after, mid))
			}
		}
	})
	res.Stats["evaluations"] += int64(total)
	if len(res.Samples) < 2 {
		res.Samples = append(res.Samples, map[string]any{"sync": cfg.AOFSync, "history": pathString(hist), "journal_entries": len(run.Journal), "images": total})
	}
	_ = verifrt.Now

}

func looseMatch(pref []Alpha, started, lo int, got Alpha) bool {
	g := looseKey(stripDeadlines(got))
	for j := started; j >= lo; j-- {
		if looseKey(stripDeadlines(pref[j])) == g {
			return true
		}
	}
	return false
}

func prefList(p []Alpha, now int64) []string {
	var out []string
	for j, a := range p {
		out = append(out, fmt.Sprintf("%d:%q", j, a.DropExpired(now).String()))
	}
	return out
}
