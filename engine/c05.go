package main

import (
	"encoding/json"
	"fmt"
	"sort"
	"strings"
)

// C05 — commands are atomic: concurrent clients see a sequential order.
//
// SCHED explorer: for every unordered pair of commands from every family (on a
// shared key preset to the right kind, and multi-key commands overlapping on
// one key) all interleavings of their synchronisation steps are enumerated
// under the cooperative scheduler with a preemption bound; thorough adds
// triples, 2x2 command threads and background actors (snapshot copy, AOF
// rewrite, FLUSHALL, expiry sampler).  Oracle (differential): the outcome
// (every reply + final dataset) of each interleaving must be the outcome of
// some serial order of the same commands run on the same build; no panic, no
// deadlock, no livelock, stored values structurally sane.

type c05Check struct{}

func init() { register("C05", c05Check{}) }

func (c05Check) Describe() CheckInfo {
	return CheckInfo{
		Level: "model_checking",
		Rule: "stateless DFS over thread interleavings of the real handlers under a cooperative scheduler that owns every mutex, RW-mutex, wait-group, atomic, goroutine spawn and channel operation of the instrumented code " +
			"(preemption bound per tier; executions run to completion; every execution starts from a fresh instance); scenarios = all unordered pairs of the command table on shared keys (+ triples, 2x2 and background actors in thorough). " +
			"states = distinct outcomes (replies + final dataset); transitions = scheduling points executed; each execution is validated against the set of serial outcomes computed on the same build.",
		Assumptions: []string{"interleaving at synchronisation operations only is complete for data-race-free code; unsynchronised accesses are the subject of the separate free-running -race pass (tools/racepass)",
			"Go map iteration order is not controlled: replies of unordered commands are compared as multisets"},
	}
}

// c05Commands: one or two representatives per family, all touching key `a` (preset per kind) or keys a,b.
type c05Cmd struct {
	Kind string // kind of key `a` the command needs: string|int|list|hash|set|zset|any
	A    []string
}

func c05Table() []c05Cmd {
	return []c05Cmd{
		{"int", []string{"GET", "a"}}, {"int", []string{"SET", "a", "7"}}, {"int", []string{"SET", "a", "8", "EX", "100"}}, {"int", []string{"MSET", "a", "1", "b", "1"}},
		{"int", []string{"MSET", "a", "2", "b", "2"}}, {"int", []string{"MGET", "a", "b"}}, {"int", []string{"DEL", "a"}}, {"int", []string{"DEL", "a", "b"}}, {"int", []string{"INCR", "a"}},
		{"int", []string{"DECRBY", "a", "3"}}, {"int", []string{"INCRBYFLOAT", "a", "1.5"}}, {"string", []string{"APPEND", "a", "x"}}, {"string", []string{"SETRANGE", "a", "1", "zz"}},
		{"int", []string{"RENAME", "a", "b"}}, {"int", []string{"GETDEL", "a"}}, {"int", []string{"GETEX", "a", "EX", "100"}}, {"int", []string{"EXPIRE", "a", "100"}}, {"int", []string{"PERSIST", "a"}},
		{"int", []string{"TTL", "a"}}, {"int", []string{"TYPE", "a"}},
		{"list", []string{"LPUSH", "a", "p"}}, {"list", []string{"RPUSH", "a", "q"}}, {"list", []string{"RPOP", "a"}}, {"list", []string{"LPOP", "a"}}, {"list", []string{"LSET", "a", "0", "s"}},
		{"list", []string{"LREM", "a", "0", "x"}}, {"list", []string{"LTRIM", "a", "0", "0"}}, {"list", []string{"LMOVE", "a", "b", "LEFT", "RIGHT"}}, {"list", []string{"LRANGE", "a", "0", "-1"}}, {"list", []string{"LLEN", "a"}},
		{"hash", []string{"HSET", "a", "f", "1"}}, {"hash", []string{"HSET", "a", "g", "2"}}, {"hash", []string{"HINCRBY", "a", "n", "1"}}, {"hash", []string{"HDEL", "a", "f0"}}, {"hash", []string{"HGETALL", "a"}}, {"hash", []string{"HSETNX", "a", "f", "9"}},
		{"set", []string{"SADD", "a", "p"}}, {"set", []string{"SADD", "a", "q"}}, {"set", []string{"SREM", "a", "x"}}, {"set", []string{"SMOVE", "a", "b", "x"}}, {"set", []string{"SUNIONSTORE", "b", "a", "c"}},
		{"set", []string{"SINTERSTORE", "a", "a", "c"}}, {"set", []string{"SMEMBERS", "a"}}, {"set", []string{"SCARD", "a"}},
		{"zset", []string{"ZADD", "a", "5", "p"}}, {"zset", []string{"ZINCRBY", "a", "1", "x"}}, {"zset", []string{"ZPOPMIN", "a"}}, {"zset", []string{"ZREM", "a", "x"}}, {"zset", []string{"ZUNIONSTORE", "b", "a", "c"}},
		{"zset", []string{"ZRANGE", "a", "0", "-1", "WITHSCORES"}}, {"zset", []string{"ZCARD", "a"}},
		{"any", []string{"FLUSHDB"}}, {"any", []string{"FLUSHALL"}},
	}
}

func c05Setup(kind string) []Action {
	switch kind {
	case "int":
		return []Action{cmd("SET", "a", "5"), cmd("SET", "b", "5")}
	case "string":
		return []Action{cmd("SET", "a", "str"), cmd("SET", "b", "str")}
	case "list":
		return []Action{cmd("RPUSH", "a", "x", "y"), cmd("RPUSH", "b", "z")}
	case "hash":
		return []Action{cmd("HSET", "a", "f0", "v", "n", "1")}
	case "set":
		return []Action{cmd("SADD", "a", "x", "y"), cmd("SADD", "b", "z"), cmd("SADD", "c", "x", "w")}
	case "zset":
		return []Action{cmd("ZADD", "a", "1", "x", "2", "y"), cmd("ZADD", "b", "1", "z"), cmd("ZADD", "c", "1", "x", "3", "w")}
	}
	return nil
}

type c05Args struct {
	Scn []c05Scenario
}

type c05Scenario struct {
	Name    string
	Kind    string
	Threads [][]Action
	Bound   int
	Cfg     InstCfg
	MaxExec int
	Extra   []Action // extra setup
}

func compatible(a, b c05Cmd) (string, bool) {
	switch {
	case a.Kind == "any":
		return b.Kind, true
	case b.Kind == "any":
		return a.Kind, true
	case a.Kind == b.Kind:
		return a.Kind, true
	case a.Kind == "int" && b.Kind == "string", a.Kind == "string" && b.Kind == "int":
		return "string", false
	}
	return "", false
}

func (c05Check) Units(tier string, seed int64) []Unit {
	tab := c05Table()
	var scns []c05Scenario
	bound := 2
	if tier == "thorough" {
		bound = 3
	}
	for i := 0; i < len(tab); i++ {
		for j := i; j < len(tab); j++ {
			k, ok := compatible(tab[i], tab[j])
			if !ok {
				continue
			}
			if k == "any" {
				k = "int"
			}
			scns = append(scns, c05Scenario{Name: strings.Join(tab[i].A, " ") + " || " + strings.Join(tab[j].A, " "), Kind: k,
				Threads: [][]Action{{cmd(tab[i].A...)}, {cmd(tab[j].A...)}}, Bound: bound, MaxExec: 60000})
		}
	}
	// background actors alongside a writer and a reader
	pers := InstCfg{DataDir: "/data", AOFSync: "always"}
	for _, actor := range []Action{{K: "getstate"}, {K: "snap"}, {K: "rewrite"}, cmd("FLUSHALL")} {
		for _, wr := range [][]string{{"MSET", "a", "1", "b", "1"}, {"INCR", "a"}, {"DEL", "a", "b"}, {"RPUSH", "l", "q"}} {
			cfg := InstCfg{}
			if actor.K == "snap" || actor.K == "rewrite" {
				cfg = pers
			}
			scns = append(scns, c05Scenario{Name: actor.String() + " || " + strings.Join(wr, " ") + " || MGET a b", Kind: "int", Cfg: cfg, Extra: []Action{cmd("RPUSH", "l", "x")},
				Threads: [][]Action{{actor}, {cmd(wr...)}, {cmd("MGET", "a", "b")}}, Bound: bound - 1, MaxExec: 60000})
		}
	}
	if tier == "thorough" {
		// 2 threads x 2 commands for chosen families, and triples of the commands that are atomic today
		two := [][2][]string{{{"MSET", "a", "1", "b", "1"}, {"MGET", "a", "b"}}, {{"SET", "a", "1"}, {"GET", "a"}}, {{"DEL", "a", "b"}, {"MGET", "a", "b"}}}
		for _, x := range two {
			for _, y := range two {
				scns = append(scns, c05Scenario{Name: "2x2 " + strings.Join(x[0], " ") + ";" + strings.Join(x[1], " ") + " || " + strings.Join(y[0], " ") + ";" + strings.Join(y[1], " "), Kind: "int",
					Threads: [][]Action{{cmd(x[0]...), cmd(x[1]...)}, {cmd(y[0]...), cmd(y[1]...)}}, Bound: 2, MaxExec: 60000})
			}
		}
		atomicToday := [][]string{{"MSET", "a", "1", "b", "1"}, {"MSET", "a", "2", "b", "2"}, {"MGET", "a", "b"}, {"DEL", "a", "b"}, {"FLUSHDB"}, {"SET", "a", "7"}, {"GET", "a"}}
		for i := 0; i < len(atomicToday); i++ {
			for j := i; j < len(atomicToday); j++ {
				for k := j; k < len(atomicToday); k++ {
					scns = append(scns, c05Scenario{Name: "triple " + strings.Join(atomicToday[i], " ") + " || " + strings.Join(atomicToday[j], " ") + " || " + strings.Join(atomicToday[k], " "), Kind: "int",
						Threads: [][]Action{{cmd(atomicToday[i]...)}, {cmd(atomicToday[j]...)}, {cmd(atomicToday[k]...)}}, Bound: 2, MaxExec: 60000})
				}
			}
		}
	}
	// shard scenarios over units
	per := 8
	var us []Unit
	for i := 0; i < len(scns); i += per {
		e := i + per
		if e > len(scns) {
			e = len(scns)
		}
		b, _ := json.Marshal(c05Args{Scn: scns[i:e]})
		us = append(us, Unit{Name: fmt.Sprintf("scenarios-%d-%d", i, e-1), Args: b})
	}
	return us
}

func (c05Check) Run(u Unit, w *Worker) UnitResult {
	var a c05Args
	json.Unmarshal(u.Args, &a)
	res := UnitResult{Stats: map[string]int64{}}
	for _, s := range a.Scn {
		if !w.Case(s.Name) {
			continue
		}
		sc := &SchedScenario{Name: s.Name, Cfg: s.Cfg, Setup: append(c05Setup(s.Kind), s.Extra...), Threads: s.Threads, Bound: s.Bound, MaxExec: s.MaxExec}
		judgeScenario("C05", sc, &res)
	}
	return res
}

// judgeScenario explores one scenario and reports non-serial outcomes, panics, deadlocks.
func judgeScenario(prop string, sc *SchedScenario, res *UnitResult) *SchedResult {
	r := exploreScenario(sc)
	res.Stats["scenarios"]++
	res.Stats["executions"] += int64(r.Executions)
	res.Stats["transitions"] += int64(r.TotalPoints)
	res.Stats["serial_orders"] += int64(len(serialOrders(sc.Threads)))
	if int64(r.MaxPoints) > res.Stats["max_points_per_execution"] {
		res.Stats["max_points_per_execution"] = int64(r.MaxPoints)
	}
	if r.Err != "" {
		res.EngineError = "scenario " + sc.Name + ": " + r.Err
		return r
	}
	if r.Diverged != "" {
		// The same choice sequence led to another set of enabled threads: the code under test is not deterministic under
		// replay.  The one source the scheduler does not own is Go's map iteration order (e.g. DEL a b ranges over a map
		// of its keys, so which key goes first differs between executions).  The scenario is abandoned and the run is
		// reported as not exhaustive - never as a violation, and not as an engine failure either.
		res.Stats["scenarios_abandoned_nondeterministic_replay"]++
		res.Capped = "scenario " + sc.Name + ": schedule replay diverged (map iteration order in the code under test is not owned): " + r.Diverged
		return r
	}
	if r.Stuck {
		res.Capped = "scenario " + sc.Name + ": a thread blocked in a construct the scheduler does not own (engine limitation, scenario abandoned)"
		return r
	}
	if r.Capped {
		res.Capped = fmt.Sprintf("scenario %q: execution cap %d reached", sc.Name, sc.MaxExec)
	}
	if len(r.Outcomes) > 1 {
		res.Stats["scenarios_with_several_outcomes"]++
	}
	names := scenarioSig(sc)
	for _, k := range sortedOutcomeKeys(r.Outcomes) {
		o := r.Outcomes[k]
		res.Outcomes = append(res.Outcomes, hashJSON(sc.Name+"\x00"+k))
		kind := ""
		switch {
		case len(o.Panics) > 0:
			kind = "panic"
		case o.Livelock:
			kind = "livelock"
		case o.Deadlock:
			kind = "deadlock"
		case o.Stuck:
			res.Capped = fmt.Sprintf("scenario %q: a thread blocked outside the scheduler (engine limitation)", sc.Name)
			continue
		case o.Trunc:
			res.Capped = fmt.Sprintf("scenario %q: point budget exhausted", sc.Name)
			continue
		default:
			if _, ok := r.Serial[k]; ok {
				continue
			}
			kind = "not-serializable"
			if strings.Contains(o.Final, "!BAD:") {
				kind = "corrupt-value"
			}
		}
		detail := fmt.Sprintf("scenario [%s] (setup: %s): schedule with %d preemption(s), choices %v gives replies %v, final dataset %q", sc.Name, pathString(sc.Setup), o.Preempts, o.Choices, o.Replies, o.Final)
		switch kind {
		case "not-serializable", "corrupt-value":
			var ser []string
			for sk := range r.Serial {
				ser = append(ser, sk)
			}
			sort.Strings(ser)
			detail += fmt.Sprintf(" — which no serial order produces (serial outcomes: %q)", ser)
		case "deadlock", "livelock":
			detail += fmt.Sprintf(" — blocked threads: %v", o.Blocked)
		case "panic":
			detail += fmt.Sprintf(" — panics: %v", o.Panics)
		}
		res.Findings = append(res.Findings, Finding{Prop: prop, Kind: kind, Sig: "atomicity|" + names + "|" + kind, Detail: detail,
			Replay: map[string]any{"scenario": sc, "choices": o.Choices}, Cost: o.Preempts*1000 + len(o.Choices)})
	}
	if len(res.Samples) < 2 {
		res.Samples = append(res.Samples, map[string]any{"scenario": sc.Name, "executions": r.Executions, "distinct_outcomes": len(r.Outcomes), "serial_outcomes": len(r.Serial), "bound": sc.Bound, "max_points": r.MaxPoints})
	}
	return r
}

func scenarioSig(sc *SchedScenario) string {
	var parts []string
	for _, t := range sc.Threads {
		var cs []string
		for _, a := range t {
			if len(a.A) > 0 {
				cs = append(cs, strings.Join(a.A, " "))
			} else {
				cs = append(cs, a.K)
			}
		}
		parts = append(parts, strings.Join(cs, ";"))
	}
	sort.Strings(parts)
	return strings.Join(parts, " || ")
}
