package main

import (
	"strings"
)

// Command catalogue: argument templates per data command, written from
// docs/docs/commands/** (syntax lines) and Redis conventions, NOT from the
// implementation's key_funcs.  Placeholders are expanded by cartesian product
// over small domains that depend on the profile in use.

type CatEntry struct {
	Name  string
	Kind  string   // key kind the command works on: string | list | hash | set | zset | any
	Read  bool     // documented as read-only
	Tmpls []string // argument templates (without the command name)
}

var catalog = []CatEntry{
	// generic / string
	{"SET", "string", false, []string{"{ks} {v}", "{ks} {v} NX", "{ks} {v} XX", "{ks} {v} GET", "{ks} {v} EX 100", "{ks} {v} PX 100", "{ks} {v} EXAT 1900000000", "{ks} {v} PXAT 1900000000000", "{ks} {v} NX GET", "{ks} {v} XX EX 100", "{ks} {v} EX abc", "{ks} {v} BOGUS", "{ks} {v} NX XX"}},
	{"MSET", "string", false, []string{"{ks} {v}", "{ks} {v} {ks2} {v}", "{ks} {v} {ks2}"}},
	{"GET", "string", true, []string{"{k}"}},
	{"MGET", "string", true, []string{"{k}", "{k} {k2}"}},
	{"DEL", "any", false, []string{"{k}", "{k} {k2}", "{k} {k}", "{k} x {k}"}},
	{"PERSIST", "any", false, []string{"{k}"}},
	{"EXPIRETIME", "any", true, []string{"{k}"}},
	{"PEXPIRETIME", "any", true, []string{"{k}"}},
	{"TTL", "any", true, []string{"{k}"}},
	{"PTTL", "any", true, []string{"{k}"}},
	{"EXPIRE", "any", false, []string{"{k} 100", "{k} 100 {eo}", "{k} abc", "{k} -1"}},
	{"PEXPIRE", "any", false, []string{"{k} 100000", "{k} 100000 {eo}"}},
	{"EXPIREAT", "any", false, []string{"{k} 1900000000", "{k} 1900000000 {eo}", "{k} 1"}},
	{"PEXPIREAT", "any", false, []string{"{k} 1900000000000", "{k} 1900000000000 {eo}"}},
	{"INCR", "string", false, []string{"{ks}"}},
	{"DECR", "string", false, []string{"{ks}"}},
	{"INCRBY", "string", false, []string{"{ks} 5", "{ks} -3", "{ks} abc", "{ks} 1.5"}},
	{"DECRBY", "string", false, []string{"{ks} 5", "{ks} abc"}},
	{"INCRBYFLOAT", "string", false, []string{"{ks} 1.5", "{ks} -0.5", "{ks} 2", "{ks} abc"}},
	{"RENAME", "any", false, []string{"{k} {k2}", "{k} {k}", "{k} newkey"}},
	{"FLUSHDB", "any", false, []string{""}},
	{"FLUSHALL", "any", false, []string{""}},
	{"RANDOMKEY", "any", true, []string{""}},
	{"GETDEL", "string", false, []string{"{ks}"}},
	{"GETEX", "string", false, []string{"{ks}", "{ks} PERSIST", "{ks} EX 100", "{ks} PX 100000", "{ks} EXAT 1900000000", "{ks} PXAT 1900000000000", "{ks} EX abc", "{ks} BOGUS"}},
	{"TYPE", "any", true, []string{"{k}"}},
	{"TOUCH", "any", true, []string{"{k}", "{k} {k2}"}},
	{"OBJECTFREQ", "any", true, []string{"{k}"}},
	{"OBJECTIDLETIME", "any", true, []string{"{k}"}},
	{"SETRANGE", "string", false, []string{"{ks} {off} {v}", "{ks} abc x"}},
	{"STRLEN", "string", true, []string{"{ks}"}},
	{"SUBSTR", "string", true, []string{"{ks} {i} {i}", "{ks} a b"}},
	{"GETRANGE", "string", true, []string{"{ks} {i} {i}", "{ks} a b"}},
	{"APPEND", "string", false, []string{"{ks} {v}"}},
	// hash
	{"HSET", "hash", false, []string{"{kh} {fld} {v}", "{kh} {fld} {v} {fld} {v}", "{kh} {fld}"}},
	{"HSETNX", "hash", false, []string{"{kh} {fld} {v}", "{kh} {fld} {v} {fld} {v}"}},
	{"HGET", "hash", true, []string{"{kh} {fld}", "{kh} {fld} {fld}"}},
	{"HMGET", "hash", true, []string{"{kh} {fld}", "{kh} {fld} {fld}"}},
	{"HSTRLEN", "hash", true, []string{"{kh} {fld}", "{kh} {fld} {fld}"}},
	{"HVALS", "hash", true, []string{"{kh}"}},
	{"HRANDFIELD", "hash", true, []string{"{kh}", "{kh} {c}", "{kh} {c} WITHVALUES", "{kh} abc", "{kh} 1 BOGUS"}},
	{"HLEN", "hash", true, []string{"{kh}"}},
	{"HKEYS", "hash", true, []string{"{kh}"}},
	{"HINCRBYFLOAT", "hash", false, []string{"{kh} {fld} 1.5", "{kh} {fld} abc", "{kh} {fld} inf", "{kh} {fld} nan", "{kh} {fld} 1e308"}},
	{"HINCRBY", "hash", false, []string{"{kh} {fld} 5", "{kh} {fld} abc", "{kh} {fld} 1.5"}},
	{"HGETALL", "hash", true, []string{"{kh}"}},
	{"HEXISTS", "hash", true, []string{"{kh} {fld}"}},
	{"HDEL", "hash", false, []string{"{kh} {fld}", "{kh} {fld} {fld}"}},
	// list
	{"LPUSH", "list", false, []string{"{kl} {e}", "{kl} {e} {e}"}},
	{"LPUSHX", "list", false, []string{"{kl} {e}", "{kl} {e} {e}"}},
	{"RPUSH", "list", false, []string{"{kl} {e}", "{kl} {e} {e}"}},
	{"RPUSHX", "list", false, []string{"{kl} {e}", "{kl} {e} {e}"}},
	{"LPOP", "list", false, []string{"{kl}", "{kl} {c}", "{kl} abc"}},
	{"RPOP", "list", false, []string{"{kl}", "{kl} {c}", "{kl} abc"}},
	{"LLEN", "list", true, []string{"{kl}"}},
	{"LRANGE", "list", true, []string{"{kl} {i} {i}", "{kl} a b"}},
	{"LINDEX", "list", true, []string{"{kl} {i}", "{kl} abc"}},
	{"LSET", "list", false, []string{"{kl} {i} {e}", "{kl} abc x"}},
	{"LTRIM", "list", false, []string{"{kl} {i} {i}", "{kl} a b"}},
	{"LREM", "list", false, []string{"{kl} {c} {e}", "{kl} abc a"}},
	{"LMOVE", "list", false, []string{"{kl} {kl2} {lr} {lr}", "{kl} {kl} {lr} {lr}", "{kl} {kl2} UP LEFT"}},
	// set
	{"SADD", "set", false, []string{"{kt} {m}", "{kt} {m} {m}"}},
	{"SCARD", "set", true, []string{"{kt}"}},
	{"SDIFF", "set", true, []string{"{kt}", "{kt} {kt2}", "{kt} {kt2} {kt}", "{kt} {kt2} {kt3}"}},
	{"SDIFFSTORE", "set", false, []string{"{dst} {kt}", "{dst} {kt} {kt2}", "{kt} {kt} {kt2}", "{dst} {kt} {kt2} {kt3}", "{dst} {kt} {kt2} {kt2}"}},
	{"SINTER", "set", true, []string{"{kt}", "{kt} {kt2}", "{kt} {kt2} {kt}", "{kt} {kt2} {kt3}"}},
	{"SINTERCARD", "set", true, []string{"{kt}", "{kt} {kt2}", "{kt} {kt2} {kt3}", "{kt} {kt2} {kt3} LIMIT 1", "{kt} {kt2} LIMIT {c}", "{kt} {kt2} LIMIT abc"}},
	{"SINTERSTORE", "set", false, []string{"{dst} {kt}", "{dst} {kt} {kt2}", "{dst} {kt} {kt2} {kt3}", "{kt} {kt} {kt2}"}},
	{"SISMEMBER", "set", true, []string{"{kt} {m}"}},
	{"SMEMBERS", "set", true, []string{"{kt}"}},
	{"SMISMEMBER", "set", true, []string{"{kt} {m}", "{kt} {m} {m}"}},
	{"SMOVE", "set", false, []string{"{kt} {kt2} {m}", "{kt} {kt} {m}", "{kt} {dst} {m}"}},
	{"SPOP", "set", false, []string{"{kt}", "{kt} {c}", "{kt} abc"}},
	{"SRANDMEMBER", "set", true, []string{"{kt}", "{kt} {c}", "{kt} abc"}},
	{"SREM", "set", false, []string{"{kt} {m}", "{kt} {m} {m}"}},
	{"SUNION", "set", true, []string{"{kt}", "{kt} {kt2}", "{kt} {kt2} {kt}", "{kt} {kt2} {kt3}"}},
	{"SUNIONSTORE", "set", false, []string{"{dst} {kt}", "{dst} {kt} {kt2}", "{kt} {kt} {kt2}"}},
	// sorted set
	{"ZADD", "zset", false, []string{"{kz} {sv} {m}", "{kz} {sv} {m} {sv} {m}", "{kz} {zf} {sv} {m}", "{kz} {zf} {zf2} {sv} {m}", "{kz} {zf} CH {sv} {m}", "{kz} INCR {sv} {m}", "{kz} XX INCR {sv} {m}", "{kz} NX XX 1 a", "{kz} GT LT 1 a", "{kz} GT NX 1 a", "{kz} 1", "{kz} abc a", "{kz} INCR 1 a 2 b"}},
	{"ZCARD", "zset", true, []string{"{kz}"}},
	{"ZCOUNT", "zset", true, []string{"{kz} {sc} {sc}", "{kz} abc 1"}},
	{"ZDIFF", "zset", true, []string{"{kz}", "{kz} {kz2}", "{kz} {kz2} {kz3}", "{kz} {kz2} WITHSCORES", "{kz} {kz2} {kz} WITHSCORES"}},
	{"ZDIFFSTORE", "zset", false, []string{"{dst} {kz}", "{dst} {kz} {kz2}", "{kz} {kz} {kz2}"}},
	{"ZINCRBY", "zset", false, []string{"{kz} {sv} {m}", "{kz} abc a"}},
	{"ZINTER", "zset", true, []string{"{kz}", "{kz} {kz2}", "{kz} {kz2} WITHSCORES", "{kz} {kz2} WEIGHTS 2 3 WITHSCORES", "{kz} {kz2} AGGREGATE {agg} WITHSCORES", "{kz} {kz2} WEIGHTS 2 3 AGGREGATE {agg} WITHSCORES", "{kz} {kz2} WEIGHTS 2", "{kz} {kz2} AGGREGATE BOGUS", "{kz} {kz2} {kz} WEIGHTS 1 2 3 WITHSCORES", "{kz} {kz2} {kz3} WITHSCORES"}},
	{"ZINTERSTORE", "zset", false, []string{"{dst} {kz}", "{dst} {kz} {kz2}", "{dst} {kz} {kz2} WEIGHTS 2 3", "{dst} {kz} {kz2} AGGREGATE {agg}", "{kz} {kz} {kz2}", "{dst} {kz} {kz2} WEIGHTS 2"}},
	{"ZMPOP", "zset", false, []string{"{kz} MIN", "{kz} MAX", "{kz} {kz2} MIN COUNT {c}", "{kz} MAX COUNT {c}", "{kz} BOGUS", "{kz} MIN COUNT abc"}},
	{"ZMSCORE", "zset", true, []string{"{kz} {m}", "{kz} {m} {m}"}},
	{"ZPOPMAX", "zset", false, []string{"{kz}", "{kz} {c}", "{kz} abc"}},
	{"ZPOPMIN", "zset", false, []string{"{kz}", "{kz} {c}", "{kz} abc"}},
	{"ZRANDMEMBER", "zset", true, []string{"{kz}", "{kz} {c}", "{kz} {c} WITHSCORES", "{kz} abc"}},
	{"ZRANK", "zset", true, []string{"{kz} {m}", "{kz} {m} WITHSCORE"}},
	{"ZREVRANK", "zset", true, []string{"{kz} {m}", "{kz} {m} WITHSCORE"}},
	{"ZREM", "zset", false, []string{"{kz} {m}", "{kz} {m} {m}"}},
	{"ZSCORE", "zset", true, []string{"{kz} {m}"}},
	{"ZREMRANGEBYLEX", "zset", false, []string{"{kz} {lex} {lex}"}},
	{"ZREMRANGEBYRANK", "zset", false, []string{"{kz} {i} {i}", "{kz} a b"}},
	{"ZREMRANGEBYSCORE", "zset", false, []string{"{kz} {sc} {sc}", "{kz} abc 1"}},
	{"ZLEXCOUNT", "zset", true, []string{"{kz} {lex} {lex}"}},
	{"ZRANGE", "zset", true, []string{"{kz} {i} {i}", "{kz} {i} {i} WITHSCORES", "{kz} {i} {i} REV", "{kz} {sc} {sc} BYSCORE", "{kz} {sc} {sc} BYSCORE WITHSCORES", "{kz} {sc} {sc} BYSCORE REV", "{kz} {sc} {sc} BYSCORE LIMIT {lo} {lc}", "{kz} {lex} {lex} BYLEX", "{kz} {lex} {lex} BYLEX REV", "{kz} {lex} {lex} BYLEX LIMIT {lo} {lc}", "{kz} 0 -1 LIMIT 0 1", "{kz} a b", "{kz} 0 -1 BYSCORE BYLEX"}},
	{"ZRANGESTORE", "zset", false, []string{"{dst} {kz} {i} {i}", "{dst} {kz} {sc} {sc} BYSCORE", "{dst} {kz} {lex} {lex} BYLEX", "{dst} {kz} {i} {i} REV", "{kz} {kz} 0 0", "{dst} {kz} {sc} {sc} BYSCORE LIMIT {lo} {lc}"}},
	{"ZUNION", "zset", true, []string{"{kz}", "{kz} {kz2}", "{kz} {kz2} WITHSCORES", "{kz} {kz2} WEIGHTS 2 3 WITHSCORES", "{kz} {kz2} AGGREGATE {agg} WITHSCORES", "{kz} {kz2} WEIGHTS 2 3 AGGREGATE {agg} WITHSCORES", "{kz} {kz2} WEIGHTS 2", "{kz} {kz2} {kz} WEIGHTS 1 2 3 WITHSCORES", "{kz} {kz2} {kz3} WITHSCORES"}},
	{"ZUNIONSTORE", "zset", false, []string{"{dst} {kz}", "{dst} {kz} {kz2}", "{dst} {kz} {kz2} WEIGHTS 2 3", "{dst} {kz} {kz2} AGGREGATE {agg}", "{kz} {kz} {kz2}", "{dst} {kz} {kz2} WEIGHTS 2"}},
}

var catByName = func() map[string]*CatEntry {
	m := map[string]*CatEntry{}
	for i := range catalog {
		m[catalog[i].Name] = &catalog[i]
	}
	return m
}()

// Domains maps placeholder name -> values.
type Domains map[string][]string

// Standard universe: key names encode their kind.
//
//	s string "v" · n int 10 · f float 1.5 · vs volatile string · l,l2 lists · h hash · t,t2 sets · z,z2 sorted sets · x missing
var fullDomains = Domains{
	"k":   {"s", "n", "f", "vs", "l", "h", "t", "z", "x"},
	"k2":  {"s", "l2", "t2", "z2", "x"},
	"ks":  {"s", "n", "f", "vs", "x", "l", "h"},
	"ks2": {"n", "x", "t"},
	"kl":  {"l", "l2", "x", "s", "t"},
	"kl2": {"l2", "l", "x", "s"},
	"kh":  {"h", "x", "s", "l"},
	"kt":  {"t", "t2", "x", "s", "z"},
	"kt2": {"t2", "t", "x", "s"},
	"kt3": {"t3", "x"},
	"kz3": {"z3", "x"},
	"kz":  {"z", "z2", "x", "s", "t"},
	"kz2": {"z2", "z", "x", "s"},
	"dst": {"dst", "t", "z", "s"},
	"v":   {"v", "007", "1.50", "", "x\r\ny"},
	"e":   {"a", "e", ""},
	"m":   {"a", "d", ""},
	"fld": {"f1", "f2", "nf"},
	"i":   {"-5", "-1", "0", "1", "3", "4", "9"},
	"off": {"-1", "0", "1", "3", "5"},
	"c":   {"-2", "0", "1", "2", "5"},
	"eo":  {"NX", "XX", "GT", "LT", "BOGUS"},
	"lr":  {"LEFT", "RIGHT"},
	"sv":  {"1", "-1.5", "2", "+inf"},
	"sc":  {"-inf", "1", "(1", "2", "+inf", "(3"},
	"lex": {"-", "+", "[a", "(b", "[c"},
	"zf":  {"NX", "XX", "GT", "LT"},
	"zf2": {"GT", "LT", "CH"},
	"agg": {"SUM", "MIN", "MAX"},
	"lo":  {"0", "1"},
	"lc":  {"-1", "1", "2"},
}

// smallDomains: a narrower product for deeper searches.
var smallDomains = Domains{
	"k":   {"s", "l", "h", "t", "z", "x"},
	"k2":  {"s", "t2", "x"},
	"ks":  {"s", "n", "x", "l"},
	"ks2": {"n", "x"},
	"kl":  {"l", "l2", "x", "s"},
	"kl2": {"l2", "l", "x"},
	"kh":  {"h", "x", "s"},
	"kt":  {"t", "t2", "x", "s"},
	"kt2": {"t2", "t", "x"},
	"kt3": {"t3"},
	"kz3": {"z3"},
	"kz":  {"z", "z2", "x", "s"},
	"kz2": {"z2", "z", "x"},
	"dst": {"dst", "t", "z"},
	"v":   {"v", "007", ""},
	"e":   {"a", "e"},
	"m":   {"a", "d"},
	"fld": {"f1", "nf"},
	"i":   {"-1", "0", "1", "4"},
	"off": {"0", "1", "5"},
	"c":   {"-2", "0", "1", "5"},
	"eo":  {"NX", "GT"},
	"lr":  {"LEFT", "RIGHT"},
	"sv":  {"1", "2"},
	"sc":  {"-inf", "(1", "2", "+inf"},
	"lex": {"-", "+", "(b"},
	"zf":  {"NX", "XX"},
	"zf2": {"GT", "CH"},
	"agg": {"SUM", "MAX"},
	"lo":  {"0", "1"},
	"lc":  {"-1", "1"},
}

// expand returns every argument vector of tmpl over dom.
func expandTmpl(name, tmpl string, dom Domains) [][]string {
	toks := strings.Fields(tmpl)
	out := [][]string{{name}}
	for _, t := range toks {
		var vals []string
		if strings.HasPrefix(t, "{") && strings.HasSuffix(t, "}") {
			vals = dom[t[1:len(t)-1]]
			if vals == nil {
				panic("catalog: unknown placeholder " + t)
			}
		} else {
			vals = []string{t}
		}
		var next [][]string
		for _, pre := range out {
			for _, v := range vals {
				next = append(next, append(append([]string{}, pre...), v))
			}
		}
		out = next
	}
	return out
}

// catalogActions expands the whole catalogue (or the named commands) into actions.
func catalogActions(dom Domains, only func(*CatEntry) bool) []Action {
	var out []Action
	seen := map[string]bool{}
	for i := range catalog {
		e := &catalog[i]
		if only != nil && !only(e) {
			continue
		}
		for _, t := range e.Tmpls {
			for _, args := range expandTmpl(e.Name, t, dom) {
				k := strings.Join(args, "\x00")
				if !seen[k] {
					seen[k] = true
					out = append(out, cmd(args...))
				}
			}
		}
		// arity probes: no arguments at all
		if !seen[e.Name] && len(e.Tmpls) > 0 && e.Tmpls[0] != "" {
			seen[e.Name] = true
			out = append(out, cmd(e.Name))
		}
	}
	return out
}

// universeSeed builds the standard dataset (db 0) used by several checks.
func universeSeed() []Action {
	return []Action{
		cmd("SET", "s", "v"),
		cmd("SET", "n", "10"),
		cmd("SET", "f", "1.5"),
		cmd("SET", "vs", "v", "EX", "1000"),
		cmd("RPUSH", "l", "a", "b", "c", "a"),
		cmd("RPUSH", "l2", "x"),
		cmd("HSET", "h", "f1", "v1", "f2", "2", "f3", "1.5"),
		cmd("SADD", "t", "a", "b", "c"),
		cmd("SADD", "t2", "b", "c", "d"),
		cmd("ZADD", "z", "1", "a", "2", "b", "3", "c"),
		cmd("ZADD", "z2", "1", "b", "5", "d"),
		cmd("SADD", "t3", "c", "d", "e"),
		cmd("ZADD", "z3", "2", "b", "7", "e"),
	}
}

// tinyDomains: at most two values per placeholder (read probes from non-initial states).
func tinyDomains() Domains {
	d := Domains{}
	for k, v := range smallDomains {
		if len(v) > 2 {
			v = v[:2]
		}
		d[k] = v
	}
	return d
}
