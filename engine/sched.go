package main

import (
	"fmt"
	"net"
	"os"
	"runtime/debug"
	"sort"
	"strings"
	"time"

	"github.com/echovault/sugardb/sugardb"
	"github.com/echovault/sugardb/verifrt"
)

// SCHED explorer: stateless depth-first exploration of thread interleavings of
// the real implementation under the cooperative scheduler of verifrt, with
// preemption bounding.  Every execution starts from a fresh instance.

type SchedScenario struct {
	Name    string
	Cfg     InstCfg
	Setup   []Action   // executed sequentially (connection 0) before the concurrent part
	Threads [][]Action // thread i runs its actions in order on connection i
	Bound   int        // preemption bound (<0: unbounded)
	TrackMem bool      // the reported memory figure is part of the outcome
	NoEager bool       // spawned goroutines are not advanced to their first point at spawn (their start is a scheduling point)
	MaxExec int        // cap on executions (0 = none); hitting it is reported as non-exhaustive
	After   []Action   // executed one by one (connection 0, default schedule, each to quiescence) after the concurrent part
	Restorable bool    // the outcome also contains what a restart on the resulting files would restore (Cfg must name a data directory)
	RestoreAOF bool    // ... restoring from the append-only log as well
}

type ctlInstance struct {
	db    *sugardb.SugarDB
	conns []*memConn
	netc  []*net.Conn
}

// doCtl executes one action from inside a controlled thread.
func (in *ctlInstance) doCtl(ci int, a Action) (out string) {
	defer func() {
		if p := recover(); p != nil {
			out = fmt.Sprintf("PANIC(%v) at %s", p, panicSite(string(debug.Stack())))
			panic(p) // let the scheduler record it as a thread panic as well
		}
	}()
	switch a.K {
	case "cmd":
		c := ci
		if a.C != 0 {
			c = a.C
		}
		b, err := in.db.VerifHandle(in.netc[c], encodeCmd(a.A))
		if err != nil {
			return "-ERR(" + err.Error() + ")"
		}
		if unorderedReply[strings.ToUpper(a.A[0])] {
			// element order comes from Go map iteration: compare as a multiset
			if v, e := parseExact(b); e == nil {
				return v.Canon(true)
			}
		}
		return briefRaw(b)
	case "emb":
		b, err := in.db.VerifHandleEmbedded(a.A)
		if err != nil {
			return "-ERR(" + err.Error() + ")"
		}
		return briefRaw(b)
	case "snap":
		if err := in.db.VerifTakeSnapshot(); err != nil {
			return "ERR(" + err.Error() + ")"
		}
		return "ok"
	case "rewrite":
		if err := in.db.VerifRewriteAOF(); err != nil {
			return "ERR(" + err.Error() + ")"
		}
		return "ok"
	case "tick":
		if err := in.db.VerifSamplerTick(int(a.N)); err != nil {
			return "ERR(" + err.Error() + ")"
		}
		return "ok"
	case "adv":
		verifrt.Advance(time.Duration(a.N)*time.Millisecond, nil)
		return "ok"
	case "getstate":
		st := in.db.VerifGetState()
		return "state:" + fmt.Sprint(in.db.VerifDeep(st))
	}
	panic("sched: unknown action kind " + a.K)
}

var unorderedReply = map[string]bool{"SMEMBERS": true, "SUNION": true, "SINTER": true, "SDIFF": true, "HKEYS": true, "HVALS": true,
	"HGETALL": true, "SPOP": true, "SRANDMEMBER": true, "HRANDFIELD": true, "ZRANDMEMBER": true, "RANDOMKEY": true, "PUBSUB": true}

func briefRaw(b []byte) string {
	if len(b) == 0 {
		return "<no reply>"
	}
	v, err := parseExact(b)
	if err != nil {
		return fmt.Sprintf("MALFORMED(%q)", firstN(string(b), 60))
	}
	return v.String()
}

type SchedOutcome struct {
	Replies  [][]string // per thread, per action
	Final    string     // α of the final state (+ structural defects)
	Deadlock bool
	Livelock bool
	Blocked  []string
	Panics   []string
	Stuck    bool
	Trunc    bool
	Points   int
	Choices  []int
	Preempts int
	Trace    []string
	Conn     []string // bytes received per connection (pub/sub frames), rendered
	MemUsed  int64
}

func (o *SchedOutcome) Key() string {
	var sb strings.Builder
	for i, t := range o.Replies {
		fmt.Fprintf(&sb, "T%d:%s|", i, strings.Join(t, ","))
	}
	sb.WriteString(o.Final)
	if o.Deadlock {
		sb.WriteString("|DEADLOCK")
	}
	if len(o.Panics) > 0 {
		sb.WriteString("|PANIC")
	}
	for i, c := range o.Conn {
		if c != "" {
			fmt.Fprintf(&sb, "|conn%d:%s", i, c)
		}
	}
	return sb.String()
}

var dbgParentOps = map[string][]string{}

type dfsChooser struct {
	opsLog   [][]string
	prefix   []int
	pos      int
	points   []pointRec
	diverged string
}

type pointRec struct {
	n          int
	curEnabled bool
	chosen     int
}

func (c *dfsChooser) Choose(p verifrt.Point) int {
	if os.Getenv("VERIF_DBG_DIVERGE") != "" && len(c.prefix) == 0 && c.pos < 3 {
		fmt.Fprintf(os.Stderr, "  first-run point %d: %v\n", c.pos, p.Ops)
	}
	ch := 0
	if c.pos < len(c.prefix) {
		ch = c.prefix[c.pos]
		if ch >= len(p.Enabled) {
			c.diverged = fmt.Sprintf("replaying choice %d at point %d but only %d threads enabled (%v)", ch, c.pos, len(p.Enabled), p.Ops)
			ch = 0
		}
	}
	if os.Getenv("VERIF_DBG_DIVERGE") != "" {
		c.opsLog = append(c.opsLog, append([]string{fmt.Sprintf("cur=%d", p.Cur)}, p.Ops...))
	}
	c.points = append(c.points, pointRec{len(p.Enabled), p.CurEnabled, ch})
	c.pos++
	return ch
}

// runSchedule executes the scenario once under the given choice prefix.
// serialOrder, if non-nil, runs the concurrent part as ONE thread executing the listed (thread, index) steps in order.
func runSchedule(sc *SchedScenario, prefix []int, serialOrder [][2]int, trace bool) (*SchedOutcome, *dfsChooser, error) {
	resetEnv(1)
	verifrt.SetFS(verifrt.NewMemFS()) // always: see newWorld
	verifrt.QuiesceTimeout(5*time.Second, 10*time.Millisecond) // nothing of an earlier free-mode instance may still be moving
	verifrt.BeginControlled()
	ended := false
	defer func() {
		if !ended {
			verifrt.EndControlled()
		}
	}()
	in := &ctlInstance{}
	var startErr error
	nconn := len(sc.Threads)
	if nconn < 1 {
		nconn = 1
	}
	ph := verifrt.RunPhase(verifrt.FirstChooser, []string{"setup"}, func() {
		cfg := sc.Cfg
		cfg.Conns = -1
		inst, err := newInstanceNoConns(cfg)
		if err != nil {
			startErr = err
			return
		}
		in.db = inst
		for i := 0; i < nconn; i++ {
			c := newMemConn(fmt.Sprintf("c%d", i))
			var nc net.Conn = c
			in.conns = append(in.conns, c)
			in.netc = append(in.netc, &nc)
			in.db.VerifRegisterConn(&nc)
		}
		for _, a := range sc.Setup {
			in.doCtl(0, a)
		}
	})
	if startErr != nil {
		return nil, nil, startErr
	}
	if ph.Stuck {
		return &SchedOutcome{Stuck: true}, &dfsChooser{}, nil
	}
	if ph.Deadlock || len(ph.Panics) > 0 {
		return nil, nil, fmt.Errorf("setup phase failed: deadlock=%v panics=%v blocked=%v", ph.Deadlock, ph.Panics, ph.Blocked)
	}
	for _, c := range in.conns {
		c.Take()
	}
	out := &SchedOutcome{Replies: make([][]string, len(sc.Threads))}
	ch := &dfsChooser{prefix: prefix}
	verifrt.SetEagerStart(!sc.NoEager)
	verifrt.SetTracing(trace)
	var mains []func()
	var names []string
	if serialOrder != nil {
		// serial reference: one command at a time, each followed by quiescence of everything it spawned
		// (one scheduler phase per command, default schedule)
		for i := range sc.Threads {
			out.Replies[i] = make([]string, len(sc.Threads[i]))
		}
		for _, st := range serialOrder {
			st := st
			ph = verifrt.RunPhase(verifrt.FirstChooser, []string{"serial"}, func() {
				out.Replies[st[0]][st[1]] = in.doCtl(st[0], sc.Threads[st[0]][st[1]])
			})
			if ph.Deadlock || len(ph.Panics) > 0 || ph.Stuck {
				out.Deadlock, out.Panics, out.Stuck, out.Blocked = ph.Deadlock, ph.Panics, ph.Stuck, ph.Blocked
				break
			}
		}
	} else {
		for i := range sc.Threads {
			i := i
			out.Replies[i] = make([]string, len(sc.Threads[i]))
			for j := range out.Replies[i] {
				out.Replies[i][j] = "<not executed>"
			}
			mains = append(mains, func() {
				for j, a := range sc.Threads[i] {
					out.Replies[i][j] = in.doCtl(i, a)
				}
			})
			names = append(names, fmt.Sprintf("T%d", i))
		}
	}
	if serialOrder == nil {
		ph = verifrt.RunPhase(ch, names, mains...)
		out.Deadlock, out.Livelock, out.Blocked, out.Panics, out.Stuck, out.Trunc, out.Points = ph.Deadlock, ph.Livelock, ph.Blocked, ph.Panics, ph.Stuck, ph.Truncated, ph.Points
	}
	if !out.Deadlock && !out.Stuck && !out.Livelock && len(out.Panics) == 0 {
		for _, a := range sc.After {
			a := a
			ph = verifrt.RunPhase(verifrt.FirstChooser, []string{"after"}, func() { in.doCtl(0, a) })
			if ph.Deadlock || len(ph.Panics) > 0 || ph.Stuck {
				out.Deadlock, out.Panics, out.Stuck, out.Blocked = ph.Deadlock, ph.Panics, ph.Stuck, ph.Blocked
				break
			}
		}
	}
	if trace {
		out.Trace = verifrt.TakeTrace()
	}
	verifrt.EndControlled()
	ended = true
	for _, p := range ch.points {
		out.Choices = append(out.Choices, p.chosen)
		if p.chosen != 0 && p.curEnabled {
			out.Preempts++
		}
	}
	if !out.Deadlock && !out.Stuck && len(out.Panics) == 0 {
		d := in.db.VerifDumpState(nil)
		a := alphaOf(d)
		out.Final = a.String()
		out.MemUsed = d.MemUsed
		if sc.TrackMem {
			out.Final += fmt.Sprintf(" memUsed=%d", d.MemUsed)
		}
		if len(d.PubSub) > 0 {
			// the subscription table is part of the outcome: two entries for one name, or a lost subscriber, is not
			// something any serial order produces
			out.Final += " pubsub=" + strings.Join(d.PubSub, ";")
		}
		if d.StateCopy || d.StateMutation || d.SnapshotInProg || d.RewriteInProg {
			out.Final += fmt.Sprintf(" flags(copy=%v mut=%v snap=%v rewrite=%v)", d.StateCopy, d.StateMutation, d.SnapshotInProg, d.RewriteInProg)
		}
		if sc.Restorable {
			// what a restart on these files restores (free mode, on a copy of the file system)
			if fs := verifrt.FS(); fs != nil {
				cp := fs.Clone()
				verifrt.ResetTracking()
				verifrt.SetFS(cp)
				rcfg := sc.Cfg
				rcfg.RestoreSnapshot = true
				rcfg.RestoreAOF = sc.RestoreAOF
				rcfg.Conns = -1
				if rin, err, pan := safeNewInstance(rcfg); err == nil && pan == "" {
					rin.Quiesce()
					out.Final += " restorable=" + alphaOf(rin.Dump()).String()
					rin.Close()
				} else {
					out.Final += fmt.Sprintf(" restorable=<restart failed: %v %s>", err, firstLine(pan))
				}
				verifrt.SetFS(fs)
			}
		}
	}
	for _, c := range in.conns {
		out.Conn = append(out.Conn, renderFrames(c.Take()))
	}
	return out, ch, nil
}

func renderFrames(b []byte) string {
	if len(b) == 0 {
		return ""
	}
	vs, err := parseAll(b)
	var parts []string
	for _, v := range vs {
		parts = append(parts, v.String())
	}
	if err != nil {
		parts = append(parts, fmt.Sprintf("MALFORMED-TAIL(%v)", err))
	}
	return strings.Join(parts, " ")
}

// newInstanceNoConns creates the server only (controlled mode: no connection goroutines).
func newInstanceNoConns(cfg InstCfg) (*sugardb.SugarDB, error) {
	in, err := newInstanceRaw(cfg)
	return in, err
}

var dbgDiverge bool

type SchedResult struct {
	TotalPoints int
	Executions int
	MaxPoints  int
	Outcomes   map[string]*SchedOutcome // distinct outcomes, one witness each (fewest preemptions)
	Serial     map[string][][2]int      // outcome key -> a serial order producing it
	Capped     bool
	Stuck      bool // a thread blocked natively (construct not owned by the scheduler): scenario abandoned
	Diverged   string
	Err        string
}

// serialOrders enumerates all interleavings of whole commands that keep each thread's order.
func serialOrders(threads [][]Action) [][][2]int {
	var out [][][2]int
	idx := make([]int, len(threads))
	var cur [][2]int
	total := 0
	for _, t := range threads {
		total += len(t)
	}
	var rec func()
	rec = func() {
		if len(cur) == total {
			out = append(out, append([][2]int{}, cur...))
			return
		}
		for t := range threads {
			if idx[t] < len(threads[t]) {
				cur = append(cur, [2]int{t, idx[t]})
				idx[t]++
				rec()
				idx[t]--
				cur = cur[:len(cur)-1]
			}
		}
	}
	rec()
	return out
}

// exploreScenario runs all serial orders, then the bounded DFS over interleavings.
func exploreScenario(sc *SchedScenario) *SchedResult {
	res := &SchedResult{Outcomes: map[string]*SchedOutcome{}, Serial: map[string][][2]int{}}
	for _, so := range serialOrders(sc.Threads) {
		o, _, err := runSchedule(sc, nil, so, false)
		if err != nil {
			res.Err = "serial run: " + err.Error()
			return res
		}
		if o.Stuck {
			res.Stuck = true
			return res
		}
		res.Serial[o.Key()] = so
	}
	var explore func(prefix []int)
	explore = func(prefix []int) {
		if res.Capped || res.Stuck || res.Diverged != "" || res.Err != "" {
			return
		}
		if sc.MaxExec > 0 && res.Executions >= sc.MaxExec {
			res.Capped = true
			return
		}
		o, ch, err := runSchedule(sc, prefix, nil, false)
		if err != nil {
			res.Err = err.Error()
			return
		}
		res.Executions++
		if o.Stuck {
			res.Stuck = true
			return
		}
		if ch.diverged != "" {
			res.Diverged = ch.diverged
			if dbgDiverge || os.Getenv("VERIF_DBG_DIVERGE") != "" {
				fmt.Fprintf(os.Stderr, "DIVERGED scenario=%s prefix=%v\n  parent saw at that point: %v\n", sc.Name, prefix, dbgParentOps[sc.Name+fmt.Sprint(prefix)])
				for i := 0; i < 3; i++ {
					o2, ch2, _ := runSchedule(sc, prefix, nil, true)
					var ns []int
					for _, p := range ch2.points {
						ns = append(ns, p.n)
					}
					fmt.Fprintf(os.Stderr, "  rerun %d: diverged=%q counts=%v\n   trace=%v\n", i, ch2.diverged, ns, o2.Trace)
				}
				o3, ch3, _ := runSchedule(sc, prefix[:len(prefix)-1], nil, true)
				var ns []int
				for _, p := range ch3.points {
					ns = append(ns, p.n)
				}
				fmt.Fprintf(os.Stderr, "  parent prefix: counts=%v\n   trace=%v\n", ns, o3.Trace)
			}
			return
		}
		if o.Points > res.MaxPoints {
			res.MaxPoints = o.Points
		}
		res.TotalPoints += o.Points
		k := o.Key()
		if old, ok := res.Outcomes[k]; !ok || o.Preempts < old.Preempts {
			res.Outcomes[k] = o
		}
		pre := 0
		for i, p := range ch.points {
			if i >= len(prefix) {
				cost := pre
				if p.curEnabled {
					cost++
				}
				if sc.Bound < 0 || cost <= sc.Bound {
					for alt := 1; alt < p.n; alt++ {
						np := make([]int, i+1)
						for j := 0; j < i; j++ {
							np[j] = ch.points[j].chosen
						}
						np[i] = alt
						if len(ch.opsLog) > i {
							dbgParentOps[sc.Name+fmt.Sprint(np)] = append([]string{fmt.Sprintf("parent-prefix=%v threads=%d/%d/%d allops=%v", prefix, len(sc.Threads[0]), len(sc.Threads[1]), len(sc.Threads[2]), ch.opsLog[:i+1])}, ch.opsLog[i]...)
						}
						explore(np)
					}
				}
			}
			if p.chosen != 0 && p.curEnabled {
				pre++
			}
		}
	}
	explore(nil)
	return res
}

func sortedOutcomeKeys(m map[string]*SchedOutcome) []string {
	ks := make([]string, 0, len(m))
	for k := range m {
		ks = append(ks, k)
	}
	sort.Strings(ks)
	return ks
}
