package main

import (
	"encoding/json"
	"fmt"
	"math"
	"sort"
	"strconv"
	"strings"
	"time"
)

// Reference-model framework shared by C01 and C14–C17.
//
// Per-transition conformance: for every explored transition σ --cmd--> σ′ with reply r the check demands
// (r, α(σ′)) ∈ Ref(α(σ), cmd), where Ref is a small pure reference step function over the abstract dataset (a Go map
// of lists / field maps / sets / score maps).  The reference is re-synchronised from the actual pre-state at every
// step, so the search continues past a known divergence and every reachable state is a pre-state.  References are
// written from the property statements and docs/docs/commands/** (Redis conventions where those say nothing) and
// return alternatives where the documentation leaves freedom.

type refExp struct {
	reply   []func(o StepOut) bool // alternatives; nil = reply not judged
	desc    string                 // human rendering of the expected reply
	post    map[string]AVal        // expected content of database 0 afterwards (nil = unchanged)
	postAlt []map[string]AVal      // further acceptable post states
	random  bool                   // reply/post involve a random selection: judged by the family's own rule
}

func rInt(n int64) func(StepOut) bool {
	return func(o StepOut) bool { return o.V.K == ':' && o.V.I == n }
}
func rStr(s string) func(StepOut) bool {
	return func(o StepOut) bool { return (o.V.K == '+' || o.V.K == '$') && !o.V.Nul && o.V.S == s }
}
func rNum(f float64) func(StepOut) bool {
	return func(o StepOut) bool {
		if o.V.K == ':' {
			return float64(o.V.I) == f
		}
		if (o.V.K == '+' || o.V.K == '$' || o.V.K == ',') && !o.V.Nul {
			g, err := strconv.ParseFloat(strings.Replace(o.V.S, "inf", "Inf", 1), 64)
			return err == nil && (g == f || math.Abs(g-f) < 1e-9*math.Max(1, math.Abs(f)))
		}
		return false
	}
}
func rNil() func(StepOut) bool { return func(o StepOut) bool { return o.V.Nul && len(o.V.Arr) == 0 } }
func rErr() func(StepOut) bool { return func(o StepOut) bool { return o.V.IsErr() } }
func rOK() func(StepOut) bool {
	return func(o StepOut) bool { return o.V.K == '+' && strings.EqualFold(o.V.S, "OK") }
}
func rEmptyArr() func(StepOut) bool {
	return func(o StepOut) bool { return (o.V.K == '*' || o.V.K == '~') && len(o.V.Arr) == 0 }
}

// rArr: array of strings; unordered compares as multisets.
func rArr(want []string, unordered bool) func(StepOut) bool {
	return func(o StepOut) bool {
		if o.V.K != '*' && o.V.K != '~' && o.V.K != '%' {
			return false
		}
		if o.V.Nul {
			return len(want) == 0
		}
		got := []string{}
		for _, e := range o.V.Arr {
			if e.Nul {
				got = append(got, "\x00nil")
			} else if len(e.Arr) > 0 {
				return false
			} else {
				got = append(got, e.Text())
			}
		}
		w := append([]string{}, want...)
		if unordered {
			sort.Strings(got)
			sort.Strings(w)
		}
		return strings.Join(got, "\x01") == strings.Join(w, "\x01")
	}
}

func (e *refExp) matches(o StepOut) bool {
	if e.reply == nil {
		return true
	}
	if o.PErr != "" || o.Empty {
		return false
	}
	for _, f := range e.reply {
		if f(o) {
			return true
		}
	}
	return false
}

func cloneDB(m map[string]AVal) map[string]AVal {
	o := map[string]AVal{}
	for k, v := range m {
		v.L = append([]string{}, v.L...)
		v.M = append([]string{}, v.M...)
		if v.H != nil {
			h := map[string]string{}
			for a, b := range v.H {
				h[a] = b
			}
			v.H = h
		}
		if v.Z != nil {
			z := map[string]float64{}
			for a, b := range v.Z {
				z[a] = b
			}
			v.Z = z
		}
		o[k] = v
	}
	return o
}

func dbKey(m map[string]AVal) string {
	var sb strings.Builder
	for _, k := range sortedKeys(m) {
		sb.WriteString(fmt.Sprintf("%q=%s; ", k, m[k]))
	}
	return sb.String()
}

// normText erases the internal value typing (a written string may be stored as int/float64): scalars and hash
// values are compared by the text a reader sees.
func normText(m map[string]AVal) map[string]AVal {
	o := map[string]AVal{}
	for k, v := range m {
		switch v.Kind {
		case "int", "float":
			v.Kind = "string"
		case "hash":
			h := map[string]string{}
			for f, x := range v.H {
				if len(x) >= 2 && x[1] == ':' {
					x = x[2:]
				}
				h[f] = x
			}
			v.H = h
		}
		o[k] = v
	}
	return o
}

// normEmpty: an emptied collection may be kept as an empty collection or removed (not specified).
func normEmpty(m map[string]AVal) map[string]AVal {
	o := map[string]AVal{}
	for k, v := range m {
		switch v.Kind {
		case "list":
			if len(v.L) == 0 {
				continue
			}
		case "set":
			if len(v.M) == 0 {
				continue
			}
		case "hash":
			if len(v.H) == 0 {
				continue
			}
		case "zset":
			if len(v.Z) == 0 {
				continue
			}
		}
		o[k] = v
	}
	return o
}

// alive returns the value of key k in db if present and not expired.
func aliveVal(db map[string]AVal, k string, now int64) (AVal, bool) {
	v, ok := db[k]
	if !ok || (v.Exp != 0 && v.Exp < now) {
		return AVal{}, false
	}
	return v, true
}

func atoi(s string) (int, bool) {
	n, err := strconv.Atoi(s)
	return n, err == nil
}

// ---- family check runner ----

type familySpec struct {
	Prop     string
	Kinds    []string // catalogue kinds whose commands form the alphabet
	Names    []string // or: catalogue command names
	Ref      func(db map[string]AVal, args []string, now int64) *refExp
	Title    string
	ExtraCmd func() []Action
	// Deep: a small focused alphabet (a dozen commands on the keys of the universe) explored to depth 4/5 from the seeded
	// universe: defects that need a listing, two compensating writes and another listing, or similar chains
	Deep []Action
	// LooseDeadlines: whether a key that the command REPLACES (STORE destinations, HSET over another type) keeps or
	// loses the deadline it had is not specified for this family: both are accepted.
	LooseDeadlines bool
	// Sig may name a coarser signature for a divergence with a known root cause ("" = the default kind|abstract command).
	Sig func(db map[string]AVal, a []string, kind string, now int64) string
	// Random judges commands with random selections (reply and post state against pre state).
	Random func(pre map[string]AVal, args []string, o StepOut, post map[string]AVal) string
}

type familyArgs struct {
	Seed   int
	Shard  int
	Shards int
	Depth  int
	Dom    string
}

type familyCheck struct{ spec *familySpec }

func (f familyCheck) Describe() CheckInfo {
	return CheckInfo{
		Level: "model_checking",
		Rule: "explicit-state BFS over the real dispatcher: alphabet = every command of the family in every argument template of engine/catalog.go over the tier's domains (indices/counts negative, zero, = length, beyond; empty, numeric-looking and CRLF values; 1-3 operands with missing, repeated and wrong-typed keys; destination = source), from seed datasets with every value kind; " +
			"per-transition conformance of reply and resulting dataset to the reference step function " + f.spec.Title + "; errors must change nothing. Non-trivial = distinct (state, command); states = distinct concrete dumps.",
		Assumptions: []string{"reference semantics from the property statement, docs/docs/commands and Redis conventions; where those leave freedom (emptied collections kept or removed, reply form of a miss) alternatives are accepted",
			"random selectors are judged on size/distinctness/membership only"},
	}
}

// familySeeds: the seeded universe, the empty dataset, and the universe with distinct deadlines on one key of each kind (a command must
// keep, move or clear deadlines exactly as its reference says - e.g. a key written next to a volatile one must not
// pick up its deadline).
func familySeeds() [][]Action {
	vol := universeSeed()
	// one key of each kind gets its own deadline, its sibling (l2, t2, z2, n ...) stays persistent
	for i, k := range []string{"s", "l", "h", "t", "z"} {
		vol = append(vol, cmd("EXPIRE", k, fmt.Sprint(5000+100*i)))
	}
	return [][]Action{universeSeed(), nil, vol}
}

func (f familyCheck) Units(tier string, seed int64) []Unit {
	var us []Unit
	add := func(seedIdx, depth, shards int, dom string) {
		for s := 0; s < shards; s++ {
			b, _ := json.Marshal(familyArgs{Seed: seedIdx, Shard: s, Shards: shards, Depth: depth, Dom: dom})
			us = append(us, Unit{Name: fmt.Sprintf("seed%d-%s-depth%d-shard%d", seedIdx, dom, depth, s), Args: b})
		}
	}
	if tier == "thorough" {
		add(0, 1, 8, "full")
		add(0, 2, 48, "small")
		add(1, 3, 48, "tiny")
		add(2, 1, 8, "full")
		add(2, 2, 24, "tiny")
		if len(f.spec.Deep) > 0 {
			add(0, 5, len(f.spec.Deep), "deep")
		}
	} else {
		add(0, 1, 8, "full")
		add(0, 2, 24, "tiny")
		add(1, 2, 8, "tiny")
		add(2, 1, 8, "small")
		if len(f.spec.Deep) > 0 {
			add(0, 4, len(f.spec.Deep), "deep")
		}
	}
	return us
}

func (f familyCheck) alphabet(dom string) []Action {
	if dom == "deep" {
		return f.spec.Deep
	}
	d := fullDomains
	switch dom {
	case "small":
		d = smallDomains
	case "tiny":
		d = tinyDomains()
	}
	kinds := map[string]bool{}
	for _, k := range f.spec.Kinds {
		kinds[k] = true
	}
	for _, n := range f.spec.Names {
		kinds["name:"+n] = true
	}
	acts := catalogActions(d, func(e *CatEntry) bool { return kinds[e.Kind] || kinds["name:"+e.Name] })
	if f.spec.ExtraCmd != nil {
		acts = append(acts, f.spec.ExtraCmd()...)
	}
	return acts
}

func (f familyCheck) Run(u Unit, w *Worker) UnitResult {
	var a familyArgs
	json.Unmarshal(u.Args, &a)
	res := UnitResult{Stats: map[string]int64{}}
	alpha := f.alphabet(a.Dom)
	sp := f.spec
	spec := &SeqSpec{Prop: sp.Prop, Cfg: InstCfg{}, Depth: a.Depth, Deadline: 20 * time.Minute,
		Alphabet: func(pre *State, depth int) []Action { return alpha }}
	spec.Check = func(path []Action, pre *State, act Action, out StepOut, post *State) []Finding {
		var fs []Finding
		if act.K != "cmd" {
			return nil
		}
		abs := abstractCmd(pre, 0, act.A)
		add := func(kind, detail string) {
			sig := kind + "|" + abs
			if sp.Sig != nil {
				if c := sp.Sig(pre.Alpha[0], act.A, kind, pre.NowMs); c != "" {
					sig = c
				}
			}
			fs = append(fs, Finding{Prop: sp.Prop, Kind: kind, Sig: sig,
				Detail: fmt.Sprintf("dataset %s: %s -> %s: %s", firstN(dbKey(pre.Alpha[0]), 300), act, firstN(out.Brief(), 200), detail)})
		}
		if out.Panic != "" {
			add("panic", "the handler panicked: "+firstLine(out.Panic))
			return fs
		}
		if post == nil {
			return fs
		}
		// structural oracles on the concrete post-state: no two keys may share mutable structure (a later write to one
		// would change the other) and stored values must be internally consistent (cached lengths, member flags)
		if sh := sharedStructure(post); len(sh) > 0 && len(sharedStructure(pre)) == 0 {
			add("aliasing", fmt.Sprintf("afterwards the keys %v share mutable structure (overlapping backing storage)", sh))
		}
		for _, k := range sortedKeys(post.Alpha[0]) {
			if b := post.Alpha[0][k].Bad; b != "" && pre.Alpha[0][k].Bad == "" {
				add("corrupt-value", fmt.Sprintf("the value stored at %q is inconsistent: %s", k, b))
			}
		}
		exp := sp.Ref(pre.Alpha[0], act.A, pre.NowMs)
		if exp == nil {
			res.Stats["undefined_by_reference"]++
			// not judged by the reference - but a command that answers with an error must still have changed nothing
			if out.V.IsErr() && dbKey(normText(normEmpty(post.Alpha[0]))) != dbKey(normText(normEmpty(pre.Alpha[0]))) {
				add("state-changed-by-failing-or-reading-command", fmt.Sprintf("the command failed but the dataset changed to %s", firstN(dbKey(normText(normEmpty(post.Alpha[0]))), 300)))
			}
			return fs
		}
		res.Stats["conformance_checks"]++
		if exp.random {
			if c := sp.Random(pre.Alpha[0], act.A, out, post.Alpha[0]); c != "" {
				add("random-selection", c)
			}
			return fs
		}
		replyOK := exp.matches(out)
		if !replyOK {
			add("reply", "the reference expects "+exp.desc)
		}
		wantPost := exp.post
		if wantPost == nil {
			wantPost = pre.Alpha[0]
		}
		got := dbKey(normText(normEmpty(post.Alpha[0])))
		okPost := got == dbKey(normText(normEmpty(wantPost)))
		for _, alt := range exp.postAlt {
			if got == dbKey(normText(normEmpty(alt))) {
				okPost = true
			}
		}
		if !okPost && sp.LooseDeadlines {
			// same content, and deadlines differ only on keys that had one and were rewritten by this command
			for _, cand := range append([]map[string]AVal{wantPost}, exp.postAlt...) {
				if sameButRewrittenDeadlines(pre.Alpha[0], cand, post.Alpha[0]) {
					okPost = true
				}
			}
		}
		if !okPost {
			kind := "state"
			if exp.post == nil {
				kind = "state-changed-by-failing-or-reading-command"
			}
			add(kind, fmt.Sprintf("resulting dataset %s, the reference expects %s", firstN(got, 300), firstN(dbKey(normText(normEmpty(wantPost))), 300)))
		}
		return fs
	}
	runSeq(spec, familySeeds()[a.Seed], func(i int) bool { return i%a.Shards == a.Shard }, w, &res)
	res.Samples = append(res.Samples, map[string]any{"domains": a.Dom, "depth": a.Depth, "alphabet": len(alpha), "example": alpha[(a.Shard*31)%len(alpha)].String()})
	return res
}

// sameButRewrittenDeadlines: got equals want except for the deadline of keys that had a deadline before and whose
// content the command changed; for those the old deadline or none are both fine.
func sameButRewrittenDeadlines(pre, want, got map[string]AVal) bool {
	w, g := normText(normEmpty(want)), normText(normEmpty(got))
	if len(w) != len(g) {
		return false
	}
	for k, wv := range w {
		gv, ok := g[k]
		if !ok {
			return false
		}
		if wv.String() == gv.String() {
			continue
		}
		we, ge := wv.Exp, gv.Exp
		wv.Exp, gv.Exp = 0, 0
		if wv.String() != gv.String() {
			return false
		}
		pv, had := pre[k]
		if !had || pv.Exp == 0 {
			return false
		}
		pv2 := normText(map[string]AVal{k: pv})[k]
		pe := pv2.Exp
		pv2.Exp = 0
		if pv2.String() == wv.String() && we == pe {
			return false // neither content nor (in the reference) deadline touched: the deadline must be untouched
		}
		if !(ge == pe || ge == 0) || !(we == pe || we == 0) {
			return false
		}
	}
	return true
}
