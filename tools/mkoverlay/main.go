// mkoverlay generates a `go build -overlay` description that instruments the
// CURRENT working tree of the repository without touching it:
//
//   - selector redirection: time.Now, sync.Mutex, atomic.Bool, rand.Intn, runtime.GC,
//     os.OpenFile ... -> verifrt.* (see table below)
//   - `go` statements        -> verifrt.Go (arguments still evaluated at the go statement)
//   - channel send / receive / receive-only select -> verifrt.Before*/After* hooks
//   - adds the virtual package <module>/verifrt and the export file in package sugardb
//
// Usage: mkoverlay -repo /repo -verif /verif -out /verif/.work [-extra dir=file ...]
package main

import (
	"bytes"
	"encoding/json"
	"flag"
	"fmt"
	"go/ast"
	"go/parser"
	"go/printer"
	"go/token"
	"os"
	"path/filepath"
	"sort"
	"strings"
)

const rtImport = "github.com/echovault/sugardb/verifrt"

// package path -> selector -> verifrt name
var table = map[string]map[string]string{
	"time": {"Now": "Now", "Since": "Since", "Until": "Until", "NewTicker": "NewTicker", "After": "After", "Sleep": "Sleep"},
	"math/rand": {"Intn": "Intn", "Int": "Int", "Int63": "Int63", "Int31n": "Int31n", "Int63n": "Int63n",
		"Float64": "Float64", "Shuffle": "Shuffle", "Perm": "Perm"},
	"runtime": {"GC": "GC"},
	"net":     {"Pipe": "NetPipe"},
	"sync":    {"Mutex": "Mutex", "RWMutex": "RWMutex", "WaitGroup": "WaitGroup"},
	"sync/atomic": {"Bool": "AtomicBool", "Int64": "AtomicInt64", "Uint64": "AtomicUint64", "Int32": "AtomicInt32",
		"Uint32": "AtomicUint32", "Value": "AtomicValue"},
	"os": {"OpenFile": "OpenFile", "Open": "Open", "Create": "Create", "MkdirAll": "MkdirAll", "Mkdir": "Mkdir",
		"Remove": "Remove", "RemoveAll": "RemoveAll", "Rename": "Rename", "ReadFile": "ReadFile", "WriteFile": "WriteFile",
		"Stat": "Stat", "File": "File"},
}

// the os redirection applies only to the persistence packages
func osApplies(rel string) bool {
	return strings.HasPrefix(rel, "internal/aof/") || strings.HasPrefix(rel, "internal/snapshot/") ||
		strings.HasPrefix(rel, "internal/modules/acl/")
}

// a harmless reference that keeps the original import used
var keepUse = map[string]string{
	"time": "time.Nanosecond", "math/rand": "rand.Int", "runtime": "runtime.GOOS", "sync": "sync.NewCond",
	"sync/atomic": "atomic.AddInt32", "os": "os.Getpid", "net": "net.IPv4len",
}

type edit struct {
	pos, end int // byte offsets; pos==end is an insertion
	text     string
	seq      int
}

type census struct {
	Files, Selectors, Go, Send, Recv, Select, Unrewritten int
	UnrewrittenSites                                      []string
}

func main() {
	repo := flag.String("repo", "/repo", "repository root")
	verif := flag.String("verif", "/verif", "verif root")
	out := flag.String("out", "/verif/.work", "output directory")
	withTests := flag.Bool("tests", false, "also rewrite _test.go files (fidelity runs)")
	flag.Parse()

	ovDir := filepath.Join(*out, "ov")
	must(os.MkdirAll(ovDir, 0o755))
	replace := map[string]string{}
	var c census

	for _, top := range []string{"sugardb", "internal"} {
		root := filepath.Join(*repo, top)
		filepath.Walk(root, func(p string, info os.FileInfo, err error) error {
			if err != nil || info.IsDir() || !strings.HasSuffix(p, ".go") {
				return nil
			}
			if strings.HasSuffix(p, "_test.go") && !*withTests {
				return nil
			}
			rel, _ := filepath.Rel(*repo, p)
			src, err := os.ReadFile(p)
			must(err)
			res, changed, err := rewrite(rel, src, &c)
			if err != nil {
				fmt.Fprintf(os.Stderr, "mkoverlay: %s: %v (left untouched)\n", rel, err)
				return nil
			}
			if !changed {
				return nil
			}
			dst := filepath.Join(ovDir, rel)
			must(os.MkdirAll(filepath.Dir(dst), 0o755))
			writeIfChanged(dst, res)
			replace[p] = dst
			c.Files++
			return nil
		})
	}
	// virtual packages and the export file
	rtDir := filepath.Join(*verif, "rt", "verifrt")
	ents, err := os.ReadDir(rtDir)
	must(err)
	for _, e := range ents {
		if strings.HasSuffix(e.Name(), ".go") {
			replace[filepath.Join(*repo, "verifrt", e.Name())] = filepath.Join(rtDir, e.Name())
		}
	}
	expDir := filepath.Join(*verif, "rt", "export")
	ents, _ = os.ReadDir(expDir)
	for _, e := range ents {
		if strings.HasSuffix(e.Name(), ".go") {
			replace[filepath.Join(*repo, "sugardb", e.Name())] = filepath.Join(expDir, e.Name())
		}
	}
	expRaft := filepath.Join(*verif, "rt", "export_raft")
	ents, _ = os.ReadDir(expRaft)
	for _, e := range ents {
		if strings.HasSuffix(e.Name(), ".go") {
			replace[filepath.Join(*repo, "internal", "raft", e.Name())] = filepath.Join(expRaft, e.Name())
		}
	}
	// extra replacements: REL=FILE (mutants applied through the overlay)
	for _, a := range flag.Args() {
		kv := strings.SplitN(a, "=", 2)
		if len(kv) == 2 {
			replace[filepath.Join(*repo, kv[0])] = kv[1]
		}
	}
	b, _ := json.MarshalIndent(map[string]any{"Replace": replace}, "", " ")
	writeIfChanged(filepath.Join(*out, "overlay.json"), b)
	cb, _ := json.MarshalIndent(c, "", " ")
	writeIfChanged(filepath.Join(*out, "census.json"), cb)
	fmt.Printf("mkoverlay: files=%d selectors=%d go=%d send=%d recv=%d select=%d unrewritten=%d\n",
		c.Files, c.Selectors, c.Go, c.Send, c.Recv, c.Select, c.Unrewritten)
}

func must(err error) {
	if err != nil {
		fmt.Fprintln(os.Stderr, "mkoverlay:", err)
		os.Exit(2)
	}
}

func writeIfChanged(p string, b []byte) {
	if old, err := os.ReadFile(p); err == nil && bytes.Equal(old, b) {
		return
	}
	must(os.WriteFile(p, b, 0o644))
}

func rewrite(rel string, src []byte, c *census) ([]byte, bool, error) {
	fset := token.NewFileSet()
	f, err := parser.ParseFile(fset, rel, src, parser.ParseComments)
	if err != nil {
		return nil, false, err
	}
	tf := fset.File(f.Pos())
	off := func(p token.Pos) int { return tf.Offset(p) }
	text := func(n ast.Node) string {
		var b bytes.Buffer
		printer.Fprint(&b, fset, n)
		return b.String()
	}

	// local names of the redirected imports
	local := map[string]string{} // local name -> import path
	for _, im := range f.Imports {
		path := strings.Trim(im.Path.Value, `"`)
		if _, ok := table[path]; !ok {
			continue
		}
		if path == "os" && !osApplies(rel) {
			continue
		}
		name := path[strings.LastIndex(path, "/")+1:]
		if im.Name != nil {
			name = im.Name.Name
		}
		if name == "_" || name == "." {
			continue
		}
		local[name] = path
	}

	var edits []edit
	seq := 0
	add := func(pos, end int, s string) {
		edits = append(edits, edit{pos, end, s, seq})
		seq++
	}
	usedRT := false
	redirected := map[string]bool{}

	// 1. selectors
	ast.Inspect(f, func(n ast.Node) bool {
		se, ok := n.(*ast.SelectorExpr)
		if !ok {
			return true
		}
		id, ok := se.X.(*ast.Ident)
		if !ok || id.Obj != nil {
			return true
		}
		path, ok := local[id.Name]
		if !ok {
			return true
		}
		if to, ok := table[path][se.Sel.Name]; ok {
			add(off(se.Pos()), off(se.End()), "verifrt."+to)
			usedRT = true
			redirected[id.Name] = true
			c.Selectors++
		}
		return true
	})

	// 2. statements
	goSeq := 0
	handled := map[ast.Node]bool{}
	var doList func(list []ast.Stmt)
	recvOf := func(st ast.Stmt) (*ast.UnaryExpr, bool) {
		switch s := st.(type) {
		case *ast.ExprStmt:
			if u, ok := s.X.(*ast.UnaryExpr); ok && u.Op == token.ARROW {
				return u, true
			}
		case *ast.AssignStmt:
			if len(s.Rhs) == 1 {
				if u, ok := s.Rhs[0].(*ast.UnaryExpr); ok && u.Op == token.ARROW {
					return u, true
				}
			}
		}
		return nil, false
	}
	doList = func(list []ast.Stmt) {
		for _, st := range list {
			inner := st
			for {
				if l, ok := inner.(*ast.LabeledStmt); ok {
					inner = l.Stmt
					continue
				}
				break
			}
			switch s := inner.(type) {
			case *ast.GoStmt:
				if inner != st {
					break // labeled go statement: leave
				}
				call := s.Call
				goSeq++
				vf := fmt.Sprintf("__vf%d", goSeq)
				add(off(s.Pos()), off(call.Fun.Pos()), "{ "+vf+" := ")
				var names []string
				for i, a := range call.Args {
					switch x := a.(type) {
					case *ast.BasicLit:
						names = append(names, x.Value)
						add(off(a.Pos()), off(a.End()), "")
						continue
					case *ast.Ident:
						if x.Name == "nil" || x.Name == "true" || x.Name == "false" {
							names = append(names, x.Name)
							add(off(a.Pos()), off(a.End()), "")
							continue
						}
					}
					va := fmt.Sprintf("__va%d_%d", goSeq, i)
					names = append(names, va)
					add(off(a.Pos()), off(a.Pos()), va+" := ")
				}
				ell := ""
				if call.Ellipsis.IsValid() {
					ell = "..."
				}
				tail := fmt.Sprintf("; verifrt.Go(func() { %s(%s%s) }) }", vf, strings.Join(names, ", "), ell)
				if len(call.Args) == 0 {
					add(off(call.Fun.End()), off(call.End()), tail)
				} else {
					add(off(call.Fun.End()), off(call.Args[0].Pos()), "; ")
					for i := 0; i+1 < len(call.Args); i++ {
						add(off(call.Args[i].End()), off(call.Args[i+1].Pos()), "; ")
					}
					add(off(call.Args[len(call.Args)-1].End()), off(call.End()), tail)
				}
				usedRT = true
				c.Go++
				handled[s] = true
			case *ast.SendStmt:
				if inner != st {
					break
				}
				ch := text(s.Chan)
				add(off(s.Pos()), off(s.Pos()), "verifrt.BeforeSend("+ch+"); ")
				add(off(s.End()), off(s.End()), "; verifrt.AfterSend("+ch+")")
				usedRT = true
				c.Send++
				handled[s] = true
			case *ast.SelectStmt:
				ok := true
				hasDef := false
				var chans []string
				for _, cl := range s.Body.List {
					cc := cl.(*ast.CommClause)
					if cc.Comm == nil {
						hasDef = true
						continue
					}
					u, isRecv := recvOf(cc.Comm)
					if !isRecv {
						ok = false
						break
					}
					chans = append(chans, text(u.X))
				}
				if !ok {
					break
				}
				add(off(st.Pos()), off(st.Pos()), fmt.Sprintf("verifrt.BeforeSelect(%v, %s); ", hasDef, strings.Join(chans, ", ")))
				for _, cl := range s.Body.List {
					cc := cl.(*ast.CommClause)
					if cc.Comm == nil {
						add(off(cc.Colon)+1, off(cc.Colon)+1, " verifrt.AfterSelectDefault(); ")
						continue
					}
					u, _ := recvOf(cc.Comm)
					add(off(cc.Colon)+1, off(cc.Colon)+1, fmt.Sprintf(" verifrt.AfterSelectRecv(%v, %s, %s); ", hasDef, text(u.X), strings.Join(chans, ", ")))
					handled[u] = true
				}
				usedRT = true
				c.Select++
				handled[s] = true
			}
		}
	}
	ast.Inspect(f, func(n ast.Node) bool {
		switch x := n.(type) {
		case *ast.BlockStmt:
			doList(x.List)
		case *ast.CaseClause:
			doList(x.Body)
		case *ast.CommClause:
			doList(x.Body)
		}
		return true
	})
	// receive expressions anywhere else: `<-ch` -> verifrt.Recv(ch); `v, ok := <-ch` -> verifrt.Recv2(ch)
	commaOk := map[ast.Node]bool{}
	ast.Inspect(f, func(n ast.Node) bool {
		switch x := n.(type) {
		case *ast.AssignStmt:
			if len(x.Lhs) == 2 && len(x.Rhs) == 1 {
				if u, ok := x.Rhs[0].(*ast.UnaryExpr); ok && u.Op == token.ARROW {
					commaOk[u] = true
				}
			}
		case *ast.ValueSpec:
			if len(x.Names) == 2 && len(x.Values) == 1 {
				if u, ok := x.Values[0].(*ast.UnaryExpr); ok && u.Op == token.ARROW {
					commaOk[u] = true
				}
			}
		}
		return true
	})
	ast.Inspect(f, func(n ast.Node) bool {
		if u, ok := n.(*ast.UnaryExpr); ok && u.Op == token.ARROW && !handled[u] {
			fn := "verifrt.Recv("
			if commaOk[u] {
				fn = "verifrt.Recv2("
			}
			add(off(u.Pos()), off(u.X.Pos()), fn)
			add(off(u.End()), off(u.End()), ")")
			usedRT = true
			c.Recv++
			handled[u] = true
		}
		return true
	})

	// census of what was left alone
	ast.Inspect(f, func(n ast.Node) bool {
		switch x := n.(type) {
		case *ast.GoStmt, *ast.SendStmt, *ast.SelectStmt:
			if !handled[n] {
				c.Unrewritten++
				c.UnrewrittenSites = append(c.UnrewrittenSites, fmt.Sprintf("%s:%d %T", rel, fset.Position(n.Pos()).Line, n))
			}
		case *ast.UnaryExpr:
			if x.Op == token.ARROW && !handled[n] {
				c.Unrewritten++
				c.UnrewrittenSites = append(c.UnrewrittenSites, fmt.Sprintf("%s:%d recv-expr", rel, fset.Position(n.Pos()).Line))
			}
		}
		return true
	})

	if !usedRT {
		return src, false, nil
	}

	// 3. import of the runtime + keep-alive uses of the original imports
	var extra strings.Builder
	extra.WriteString("\nimport verifrt \"" + rtImport + "\"\n")
	names := make([]string, 0, len(redirected))
	for n := range redirected {
		names = append(names, n)
	}
	sort.Strings(names)
	for _, n := range names {
		ku := keepUse[local[n]]
		ku = n + ku[strings.Index(ku, "."):]
		extra.WriteString("var _ = " + ku + "\n")
	}
	// insert after the last import declaration
	insertAt := off(f.Name.End())
	for _, d := range f.Decls {
		if g, ok := d.(*ast.GenDecl); ok && g.Tok == token.IMPORT {
			insertAt = off(g.End())
		}
	}
	add(insertAt, insertAt, extra.String())

	sort.SliceStable(edits, func(i, j int) bool {
		if edits[i].pos != edits[j].pos {
			return edits[i].pos < edits[j].pos
		}
		// insertions at the same offset keep creation order; an insertion precedes a replacement starting there
		ii, ij := edits[i].pos == edits[i].end, edits[j].pos == edits[j].end
		if ii != ij {
			return ii
		}
		return edits[i].seq < edits[j].seq
	})
	var out bytes.Buffer
	cur := 0
	for _, e := range edits {
		if e.pos < cur {
			return nil, false, fmt.Errorf("overlapping edits at offset %d", e.pos)
		}
		out.Write(src[cur:e.pos])
		out.WriteString(e.text)
		cur = e.end
	}
	out.Write(src[cur:])
	// sanity: result must parse
	if _, err := parser.ParseFile(token.NewFileSet(), rel, out.Bytes(), 0); err != nil {
		return nil, false, fmt.Errorf("rewritten file does not parse: %v", err)
	}
	return out.Bytes(), true, nil
}
