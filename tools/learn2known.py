#!/usr/bin/env python3
"""Development aid: merge signatures learnt by `VERIF_LEARN=1 vcheck <id>` into known_findings.json
AFTER they have been classified as genuine defects (see DESIGN.md section 8).  Never run by checks.
usage: learn2known.py <Cnn> [learn-file] [--what 'prefix=text' ...]"""
import json, sys, re
prop=sys.argv[1]
lf=sys.argv[2] if len(sys.argv)>2 and not sys.argv[2].startswith('--') else f'/verif/.work/learn-{prop}.json'
rules=[a.split('=',1) for a in sys.argv[2:] if '=' in a and not a.startswith('/')]
known=json.load(open('/verif/known_findings.json'))
have={(k['property'],k['signature']) for k in known}
n=0
for f in json.load(open(lf)):
    if (prop,f['signature']) in have: continue
    what=f['what']
    for pre,txt in rules:
        if re.search(pre,f['signature']): what=txt+' — e.g. '+f['what'][:160]; break
    else:
        what=what[:260]
    known.append({'property':prop,'signature':f['signature'],'status':'known','what':what,'witness':f.get('witness')})
    n+=1
known.sort(key=lambda k:(k['property'],k['signature']))
json.dump(known,open('/verif/known_findings.json','w'),indent=1)
print('added',n,'total',len(known))
