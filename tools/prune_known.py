#!/usr/bin/env python3
"""Development aid: drop `known` entries of a property that neither tier reports any more (they would only mask a
re-introduction of a repaired defect).  Reads the full stdout logs written by tools/runall_logs.sh
(.work/quick-<id>.log and .work/thorough-<id>.log); both must exist and end with exit 0.
usage: prune_known.py <Cnn> [--dry]"""
import json,sys,os,re
prop=sys.argv[1]; dry='--dry' in sys.argv
known=json.load(open('/verif/known_findings.json'))
logs=[f'/verif/.work/{t}-{prop}.log' for t in ('quick','thorough')]
for l in logs:
    if not os.path.exists(l): sys.exit(f'missing {l}')
text=''.join(open(l,errors='replace').read() for l in logs)
if 'VIOLATION' in text: sys.exit('a log contains VIOLATION lines: classify first')
keep=[];dropped=0
for e in known:
    if e['property']!=prop or e['status']!='known': keep.append(e); continue
    pat=re.compile(re.escape(f"KNOWN-FINDING: property={prop} {e['signature']} — ")+r".*\(observed=([0-9]+)\)$",re.M)
    if any(int(m.group(1))>0 for m in pat.finditer(text)): keep.append(e)
    else: dropped+=1; print('drop',e['signature'][:150])
print(prop,'dropped',dropped,'kept',sum(1 for e in keep if e['property']==prop and e['status']=='known'))
if not dry: json.dump(keep,open('/verif/known_findings.json','w'),indent=1)
