#!/bin/bash
# runall_logs.sh <tier> [ids...]: runs checks sequentially, full stdout into .work/<tier>-<id>.log (development aid)
tier=$1; shift
cd /verif
ids="$@"
[ -z "$ids" ] && ids=$(python3 -c "import json;print(' '.join(x['property_id'] for x in json.load(open('/verif/MANIFEST.json'))['checks']))")
for c in $ids; do
  s=$(date +%s)
  bin/vcheck $c --tier $tier > .work/$tier-$c.log 2>&1; rc=$?
  echo "$c rc=$rc $(( $(date +%s) - s ))s $(grep -E '^check' .work/$tier-$c.log | cut -c1-170)"
done
