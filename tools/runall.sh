#!/bin/bash
# runall.sh [quick|thorough]: runs every registered check once and prints one line per check (development aid).
tier=${1:-quick}
cd /verif
for c in $(python3 -c "import json;print(' '.join(x['property_id'] for x in json.load(open('/verif/MANIFEST.json'))['checks']))"); do
  s=$(date +%s)
  out=$(bin/vcheck $c --tier $tier 2>&1); rc=$?
  e=$(( $(date +%s) - s ))
  echo "$c rc=$rc ${e}s $(echo "$out" | grep -E '^check' | sed 's/^check [A-Z0-9]* //' | cut -c1-150)"
  if [ $rc -ne 0 ]; then echo "$out" | grep -E "VIOLATION|signature|ENGINE|BUILD" | head -6; fi
done
