#!/usr/bin/env python3
"""seedcheck.py <Prop> <n> <check> [<check>...] [--tier quick|thorough]
Imports the seeded defect /tmp/seed-out/<Prop>/<n> into /verif/seeded/<Prop>-<n>/ (if not yet there), applies its
patch to /repo, runs the named checks, reverts /repo, and records which checks reported a VIOLATION."""
import json, os, shutil, subprocess, sys
argv=sys.argv[1:]
tier='quick'
if '--tier' in argv:
    i=argv.index('--tier'); tier=argv[i+1]; del argv[i:i+2]
args=argv
prop,n,checks=args[0],args[1],args[2:]
src=f'/tmp/seed-out/{prop}/{n}'; dst=f'/verif/seeded/{prop}-{n}'
os.makedirs(dst,exist_ok=True)
for f in ('patch.diff','demo_test.go','meta.json'):
    if os.path.exists(f'{src}/{f}') and not os.path.exists(f'{dst}/{f}'):
        shutil.copy(f'{src}/{f}',f'{dst}/{f}')
meta=json.load(open(f'{dst}/meta.json')) if os.path.exists(f'{dst}/meta.json') else {}
assert subprocess.run(['git','-C','/repo','status','--porcelain'],capture_output=True,text=True).stdout.strip()=='', '/repo not clean'
r=subprocess.run(['git','-C','/repo','apply',f'{dst}/patch.diff'],capture_output=True,text=True)
if r.returncode!=0:
    print('patch does not apply to current /repo HEAD:',r.stderr[:300]); meta.setdefault('verif',{})['applies_to_head']=False
    json.dump(meta,open(f'{dst}/meta.json','w'),indent=1); sys.exit(1)
res=meta.setdefault('verif',{}); res['applies_to_head']=True
head=subprocess.run(['git','-C','/repo','rev-parse','--short','HEAD'],capture_output=True,text=True).stdout.strip()
try:
    for c in checks:
        p=subprocess.run(['/verif/bin/vcheck',c,'--tier',tier],capture_output=True,text=True,cwd='/verif')
        viol=[l for l in p.stdout.splitlines() if l.startswith('VIOLATION')]
        sigs=[l.strip() for l in p.stdout.splitlines() if l.strip().startswith('signature:')][:5]
        res.setdefault('runs',{})[f'{c}:{tier}']={'exit':p.returncode,'violations':len(viol),'example_signatures':sigs,'repo_head':head}
        print(f'{prop}-{n} {c}:{tier} exit={p.returncode} violations={len(viol)}', sigs[:2])
finally:
    subprocess.run(['git','-C','/repo','checkout','--','.'])
json.dump(meta,open(f'{dst}/meta.json','w'),indent=1)
