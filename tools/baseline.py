#!/usr/bin/env python3
"""Run the repository's pinned test suite (guard OFF: plain go test, no overlay, no tags) and
compare with /root/.vp/BASELINE.json: every test of stable_pass must pass.  Exit 0 iff so."""
import json, subprocess, sys, os
repo = sys.argv[1] if len(sys.argv) > 1 else '/repo'
base = json.load(open('/root/.vp/BASELINE.json'))
stable = set(base['stable_pass'])
env = dict(os.environ, GOFLAGS='-mod=mod', GOPROXY='off', GOSUMDB='off', GOTOOLCHAIN='local')
p = subprocess.run(['go', 'test', '-json', '-vet=off', '-count=1', '-timeout', '25m', './...'], cwd=repo, env=env, capture_output=True, text=True)
res = {}
for line in p.stdout.splitlines():
    try:
        ev = json.loads(line)
    except Exception:
        continue
    if ev.get('Action') in ('pass', 'fail', 'skip') and ev.get('Test'):
        res[f"{ev['Package']}::{ev['Test']}"] = ev['Action']
missing = sorted(t for t in stable if res.get(t) != 'pass')
# timing-sensitive tests (e.g. internal/aof/log Test_AppendStore, 200 ms budget) can fail on a loaded machine:
# re-run the packages of the tests that did not pass, up to twice, before judging
for attempt in range(2):
    if not missing:
        break
    pkgs = sorted({t.split('::')[0] for t in missing})
    p2 = subprocess.run(['go', 'test', '-json', '-vet=off', '-count=1', '-timeout', '25m'] + pkgs, cwd=repo, env=env, capture_output=True, text=True)
    for line in p2.stdout.splitlines():
        try:
            ev = json.loads(line)
        except Exception:
            continue
        if ev.get('Action') == 'pass' and ev.get('Test'):
            res[f"{ev['Package']}::{ev['Test']}"] = 'pass'
    missing = sorted(t for t in stable if res.get(t) != 'pass')
print(f"baseline: {len(stable)} stable tests, {sum(1 for t in stable if res.get(t)=='pass')} pass now, {len(missing)} not passing; total results {len(res)}")
for t in missing[:40]:
    print("  NOT PASSING:", t, res.get(t))
sys.exit(1 if missing else 0)
