#!/usr/bin/env python3
"""Regenerates MANIFEST.json from the table below (single source of truth for registered checks)."""
import json
props=[json.loads(l) for l in open('/verif/properties.jsonl')]
CHECKS = {
 # id: (category, text, note, technique, design_ref)
 "C13": ("model_checking",
   "Explicit-state breadth-first search over the real command dispatcher (no hand model): every catalogue command x argument template x key/argument domain from seed datasets with every value kind, depth 1 (full domains) and depth 2 (writes then reads); oracle = dataset of all databases unchanged after read-only or failing commands, no two keys share mutable structure, stored values structurally sane. Exhaustive within the stated alphabet and depth.",
   "Trusts the overlay instrumentation (virtual clock, tracked goroutines) to preserve single-client behaviour; argument domains of engine/catalog.go; Go map iteration order not controlled (oracles order-insensitive).",
   "explicit-state BFS over the real step function, invariant oracle", "DESIGN.md 6 C13"),
 "C19": ("model_checking",
   "Explicit-state BFS over the real dispatcher with a memory-relevant alphabet (create/overwrite/grow/shrink/delete/rename/expire/flush for every value kind, two databases, clock advance), depth 4 (quick) / 5 (thorough); per transition the change of the reported figure must equal the change of the figure of a FRESH instance loaded with the pre/post dataset (history independence, differential oracle, the size function is the implementation's own); empty dataset => 0. Known findings (overwrite, in-place growth, flush, rename accounting) are matched per command shape and direction.",
   "Alphabet/depth bound; single client; the fresh instance is loaded through the same setValues/setExpiry calls restore uses.",
   "explicit-state BFS over the real step function, differential oracle", "DESIGN.md 6 C19"),
 "C20": ("model_checking",
   "Explicit-state BFS over the real dispatcher with two connections and the embedded caller (SELECT 0/1/12, one write/read per kind, EXPIRE, DEL, FLUSHDB, FLUSHALL, SWAPDB, clock advance) from an empty and a multi-database root, depth 4/5, in three configurations (memory only, AOF always + clean restart, snapshot + restart on the in-memory file system). Oracle: reference selected-database index per caller; databases other than the selected one untouched (data, deadlines, volatile index, LRU/LFU heaps); (reply, new content) functionally determined by the selected database's content; every live key is in the same database after restart.",
   "Indices 0,1,12; what a connection opened after SWAPDB sees is unspecified and not compared; value fidelity across restart is C02/C03's business.",
   "explicit-state BFS over the real step function, non-interference oracle + reference index table", "DESIGN.md 6 C20"),

 "C02": ("fault_enumeration",
   "Crash enumeration on the real AOF code over a journalling in-memory file system: seed prefix + every sequence of <=2 (thorough <=3) writes over an alphabet with every data type, TCP/embedded callers, databases 0/1/12, zero-reply-but-mutating writes and a clock advance, x sync policy always/everysec/no; for each history EVERY journal prefix, EVERY byte-prefix of every write (torn record) and (thorough) every per-file suffix of unsynced operations dropped is recovered by a fresh server; oracle = recovered dataset is the dataset of a prefix of the history that contains every acknowledged write under `always`, start-up never fails, a clean restart is exact, and after recovery one more acknowledged write survives a clean restart.",
   "Persistence model: per file operations reach the disk in order unless dropped as unsynced, files independent; fsync makes earlier writes of the file durable. The in-memory states of the same run are the semantic reference (durability, not command semantics).",
   "exhaustive crash-point / torn-write / dropped-write enumeration of real file-operation journals", "DESIGN.md 4.2, 6 C02"),
 "C03": ("model_checking",
   "Explicit-state BFS over the real dispatcher and snapshot engine on the in-memory file system under a virtual clock: one write per value kind and database, deadlines, clock advances, synchronous snapshot, SAVE command, snapshot+restart, LASTSAVE, from an empty root and a root with equal key names in two databases; second configuration family for the automatic trigger (threshold 1..3, virtual interval ticker). Oracle: restored dataset = dataset at the snapshot minus keys expired at restore time (keys, kinds, values, deadlines, databases), LASTSAVE = snapshot time, snapshot taken within one interval once the threshold of write commands is reached.",
   "Depth 3/4; the snapshot-under-concurrent-writers facet is covered by the scheduler scenarios of C05 (`getstate` actor).",
   "explicit-state BFS over the real step function with restart actions, differential + reference oracle", "DESIGN.md 6 C03"),
 "C04": ("model_checking",
   "Explicit-state BFS over the real dispatcher under a virtual clock (clock advance and sampler tick are actions): SET forms, EXPIRE/PEXPIRE/EXPIREAT/PEXPIREAT x {none,NX,XX,GT,LT}, PERSIST, GETEX forms, MSET, readers and existence-conditional writers, in lazy-only and background-sampler configurations (policies x sample sizes); per-transition conformance to a reference deadline table written from the docs (dead keys indistinguishable from never-existing keys, live keys never removed, TTL family exact). Plus a scheduler facet: all interleavings (preemption bound 2/3) of pairs of commands and the sampler tick on an expired-but-present key, judged against serial outcomes.",
   "TTL rounding and the reply of a refused conditional SET are unspecified in the docs and accepted either way; depth 3/4.",
   "explicit-state BFS with time as an action + preemption-bounded schedule exploration", "DESIGN.md 6 C04"),
 "C05": ("model_checking",
   "Stateless preemption-bounded DFS over thread interleavings of the REAL handlers under a cooperative scheduler owning every mutex, RW-mutex (Go writer preference), wait-group, atomic (spin loops become blocking waits), goroutine spawn and channel operation of the instrumented build: all unordered pairs of a 53-command table covering every family on shared keys (bound 2 quick / 3 thorough), background actors (state copy, snapshot, AOF rewrite, FLUSHALL) against a writer and a reader, thorough also 2x2 command threads and triples of the commands that are atomic today. Oracle (differential): each interleaving's replies + final dataset must equal those of some serial order computed on the same build; no panic, deadlock, livelock, corrupt value. Non-atomic handler pairs that exist today are listed as known findings per pair; everything else (MSET/MGET/DEL/FLUSH atomicity, lock order, spin-loop termination) is guarded.",
   "Interleaving at synchronisation operations is complete only for data-race-free code; unsynchronised accesses need the free-running -race pass (not part of this check). Go map iteration order uncontrolled (multiset comparison for unordered replies).",
   "stateless model checking: cooperative scheduler + iterative preemption bounding, serializability oracle", "DESIGN.md 4.3, 6 C05"),
 "C09": ("fault_enumeration",
   "Crash enumeration (same engine as C02) over every sequence of <=3 (thorough <=4) actions from {SET, INCR, RPUSH, SADD, DEL, SET..EX, SELECT 1, embedded SET, REWRITEAOF} that contains a rewrite (first, last, twice, on an empty log): every journal prefix and torn write over ALL operations of the history - in particular each file operation of CreatePreamble and Truncate - thorough also dropped unsynced writes of the rewrite and all three sync policies. Oracle: restored dataset = dataset of a prefix containing everything acknowledged before the rewrite began (no loss, duplication or re-typing), durable again after recovery.",
   "Writer-vs-rewrite interleavings are explored by the C05 scheduler scenarios (`rewrite` actor), not here. Persistence model as C02.",
   "exhaustive crash-point / torn-write enumeration of real file-operation journals", "DESIGN.md 6 C09"),
 "C10": ("fault_enumeration",
   "Crash enumeration over the real TakeSnapshot on the journalling in-memory file system: datasets x 0..2 earlier snapshots x {new writes, nothing new}; every journal prefix inside the crashed snapshot, every byte-prefix of each of its writes, thorough also dropped unsynced writes; a fresh server with snapshot restore must yield exactly what it yields from a COMPLETED snapshot (previous or new) incl. LASTSAVE; a failed/no-op attempt must leave files and LASTSAVE untouched; the completed snapshot must restore the key set of its instant (guards the differential reference against vacuity).",
   "Persistence model as C02; two snapshots never share a millisecond.",
   "exhaustive crash-point / torn-write enumeration of real file-operation journals", "DESIGN.md 6 C10"),

 "C08": ("model_checking",
   "Explicit-state BFS over the real dispatcher with the asynchronous cache-update/eviction goroutines brought to quiescence after every action, under a virtual clock stepping 1 ms per command: 7 policies x limits (the implementation's own usage after 2 / 3 reference keys) x all histories of depth 3 (thorough 4) over SET (two sizes, with/without deadline), GET, MGET, TOUCH, DEL, FLUSHDB; reference = access history replayed from the path + the policy rules of the property (noeviction admission, eviction only at/above the limit, candidates, LRU/LFU order, no superfluous victim, victim gone from store/volatile index/heaps, survivors unchanged, no panic/hang/leaked goroutine). Plus a scheduler facet: all interleavings of two concurrent writers one key below the limit under noeviction, judged against serial outcomes incl. the memory figure.",
   "GET/SET/TOUCH count as accesses; judged against the server's reported memory figure; order rules only on histories without an earlier eviction.",
   "explicit-state BFS over the real step function + preemption-bounded schedule exploration", "DESIGN.md 6 C08"),
 "C18": ("model_checking",
   "(a) Explicit-state BFS over the real dispatcher with three recorded connections and the embedded publisher (SUBSCRIBE/PSUBSCRIBE/UNSUBSCRIBE/PUNSUBSCRIBE incl. duplicates and unknown names, PUBLISH, PUBSUB CHANNELS/NUMSUB/NUMPAT), depth 4/5, per-transition conformance to a reference subscription table: exactly one frame per publish for every connection whose subscriptions match, none for the others, confirmations once per channel with the running count, introspection = table. (b) Stateless preemption-bounded DFS over the schedules of publisher/subscriber threads versus the per-channel and per-message delivery goroutines (their start is a scheduling point of its own): frames per connection must be those of a serial execution, in publish order.",
   "A connection subscribed by name and by a matching pattern must receive one frame (statement); PUNSUBSCRIBE also removes name subscriptions matching the pattern (documented); frame layout beyond 'last element is the message' not compared.",
   "explicit-state BFS + stateless schedule exploration under a cooperative scheduler", "DESIGN.md 6 C18"),

 "C12": ("exploration",
   "Bounded-exhaustive enumeration of inputs through the REAL connection loop over an in-memory net.Conn whose Read returns exactly the harness-chosen segment; all output judged by an independent strict RESP2/RESP3 parser: (args) every registered command x arity 0..2 over a 14-value hostile alphabet + arity 3 reduced (thorough: arity 3 full, arity 4 reduced) on keys of every kind, RESP2 and after HELLO 3; (catalog) the whole command catalogue over its full argument domains; (bytes) values with CR/LF/NUL/empty/RESP look-alikes through every reader; (seg) EVERY cut of each 1..3-command stream into <= 3 segments, pipelining, bulk strings around 8192 bytes, replies around multiples of 1024 bytes; (junk) every prefix and single-byte corruption of sample commands. Oracle: no panic, exactly one complete well-formed reply per command (one confirmation per channel for the subscribe family), stored bytes returned unaltered, segmented/pipelined output identical to one-command-per-write output, PING on another connection still answers.",
   "Reply values are judged by C01/C14-C17; streams bounded to 3 commands / 3 segments / 20 KB; many simultaneous connections are not enumerated.",
   "bounded-exhaustive input and segmentation enumeration through the real read loop", "DESIGN.md 6 C12"),

 "C06": ("model_checking",
   "Exhaustive enumeration of the authorisation decision table through the real dispatcher: rule sets = categories(7) x commands(5) x key patterns(6) x channel patterns(4) installed with ACL SETUSER, each in the states unauthenticated / authenticated / rules changed after authentication, x ~110 probes (every command family, multi-key commands in permitted/forbidden mixes, store commands with read and write keys, sub-commands, pub/sub with several channels, key-less and exempt commands); oracle = declarative evaluator of docs/docs/acl.md over the STORED profile (authenticated, enabled, every category, command|subcommand, ALL read keys, ALL write keys, all channels) and 'denied => state unchanged'.",
   "Command categories come from the server's command table, key positions of the probes from the harness; glob alphabet of 3 patterns.",
   "exhaustive decision-table enumeration against a declarative policy evaluator", "DESIGN.md 6 C06"),
 "C11": ("model_checking",
   "Explicit-state BFS (depth 5 quick / 6 thorough) over the real dispatcher + ACL module with the ACL file on the in-memory file system (JSON and YAML): administrator actions SETUSER x {on, off, >p, <p, #h, !h, nopass, resetpass, full rules}, DELUSER (one, several, default), SAVE, LOAD MERGE|REPLACE, restart; two subject connections with AUTH / HELLO AUTH (right, wrong, other user's, hash-valued passwords), ACL WHOAMI and a data probe; per-transition conformance to a reference user table: success <=> exists, enabled, nopass or plaintext or SHA-256 match; failure leaves identity unchanged; stored credentials follow the rules; disabled/deleted users can no longer act (all their connections); default undeletable; SAVE + LOAD/restart is the identity.",
   "MERGE semantics (flags of the file win, lists united) are taken from the implementation's own description because the docs are silent.",
   "explicit-state BFS over the real step function, reference user table", "DESIGN.md 6 C11"),
}
NOT_YET = "check not built yet (work in progress; see DESIGN.md section 9 for build order)"
m={"version":1,
 "setup_cmd":"cd /verif && bin/vcheck build",
 "hooks":{"guard":"build tag `verif` together with the check-time `go build -overlay` generated by /verif/tools/mkoverlay (nothing is committed in /repo for hooks)",
          "enable":"bin/vcheck regenerates /verif/.work/overlay.json from /repo's working tree and runs `go build -tags verif -overlay /verif/.work/overlay.json ./verifengine` inside /repo",
          "baseline_off_cmd":"python3 /verif/tools/baseline.py /repo",
          "source_commits":[],"add_only":True},
 "engines":[{"name":"vengine","path":"/verif/engine","serves_properties":sorted(CHECKS),"kind_free_text":"hand-written explorers over the real implementation: SEQ explicit-state BFS, SCHED cooperative scheduler with preemption-bounded DFS, CRASH journal-prefix enumeration; runtime in /verif/rt/verifrt, instrumentation by /verif/tools/mkoverlay"}],
 "checks":[], "notes":"see DESIGN.md; known findings in /verif/known_findings.json; seeded defects in /verif/seeded",
 "not_applicable":[]}
for p in props:
    i=p["id"]
    if i in CHECKS:
        cat,text,note,tech,ref=CHECKS[i]
        m["checks"].append({"property_id":i,"quick_cmd":f"bin/vcheck {i} --tier quick","thorough_cmd":f"bin/vcheck {i} --tier thorough",
          "evidence_file":f"/verif/evidence/{i}.json","replay_cmd_template":"bin/vcheck replay {path}","engine":"vengine",
          "level_claimed":{"category":cat,"text":text,"design_ref":ref},"level_note":note,"technique":tech})
    else:
        m["not_applicable"].append({"property_id":i,"reason":NOT_YET})
json.dump(m,open('/verif/MANIFEST.json','w'),indent=1)
print("checks:",[c["property_id"] for c in m["checks"]])
