module verif/tools

go 1.22
