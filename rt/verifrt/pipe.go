package verifrt

import (
	"io"
	"net"
	"sync"
	"time"
)

// NetPipe replaces net.Pipe in the code under test (the embedded subscriber API): a buffered in-memory duplex whose
// writes never block and whose reads never wait, so that what the server sent to an embedded subscriber is taken by the
// harness (Take) instead of by a reader goroutine the harness would not own.
func NetPipe() (net.Conn, net.Conn) {
	a, b := &PipeEnd{}, &PipeEnd{}
	a.peer, b.peer = b, a
	return a, b
}

type PipeEnd struct {
	mu     sync.Mutex
	buf    []byte
	closed bool
	peer   *PipeEnd
}

type pipeAddr struct{}

func (pipeAddr) Network() string { return "pipe" }
func (pipeAddr) String() string  { return "pipe" }

func (p *PipeEnd) Write(b []byte) (int, error) {
	q := p.peer
	q.mu.Lock()
	defer q.mu.Unlock()
	if q.closed {
		return 0, io.ErrClosedPipe
	}
	q.buf = append(q.buf, b...)
	return len(b), nil
}

func (p *PipeEnd) Read(b []byte) (int, error) {
	p.mu.Lock()
	defer p.mu.Unlock()
	if len(p.buf) == 0 {
		return 0, io.EOF
	}
	n := copy(b, p.buf)
	p.buf = p.buf[n:]
	return n, nil
}

// Take returns and clears what was written to the other end.
func (p *PipeEnd) Take() []byte {
	p.mu.Lock()
	defer p.mu.Unlock()
	b := p.buf
	p.buf = nil
	return b
}

func (p *PipeEnd) Close() error {
	p.mu.Lock()
	p.closed = true
	p.mu.Unlock()
	return nil
}
func (p *PipeEnd) LocalAddr() net.Addr                { return pipeAddr{} }
func (p *PipeEnd) RemoteAddr() net.Addr               { return pipeAddr{} }
func (p *PipeEnd) SetDeadline(t time.Time) error      { return nil }
func (p *PipeEnd) SetReadDeadline(t time.Time) error  { return nil }
func (p *PipeEnd) SetWriteDeadline(t time.Time) error { return nil }
