package verifrt

import (
	"sync"
	"sync/atomic"
)

// Shims for sync and sync/atomic.  Free mode: the real primitive.  Controlled
// mode: state is modelled here (only one thread runs at a time) and every
// acquiring operation is a scheduling point with an enabledness predicate.

type Locker = sync.Locker

type Mutex struct {
	mu   sync.Mutex
	held bool
}

func (m *Mutex) Lock() {
	if controlled.Load() {
		point(OpLock, m, func() bool { return !m.held })
		m.held = true
		return
	}
	m.mu.Lock()
}

func (m *Mutex) TryLock() bool {
	if controlled.Load() {
		point(OpYield, m, func() bool { return true })
		if m.held {
			return false
		}
		m.held = true
		return true
	}
	return m.mu.TryLock()
}

func (m *Mutex) Unlock() {
	if controlled.Load() {
		if !m.held {
			panic("sync: unlock of unlocked mutex")
		}
		m.held = false
		return
	}
	m.mu.Unlock()
}

// RWMutex with Go's writer preference: a writer first takes the writer slot
// and announces itself (new readers then block), then waits for readers to drain.
type RWMutex struct {
	mu        sync.RWMutex
	readers   int
	announced bool // a writer holds the writer slot (waiting for readers or holding the lock)
	held      bool
}

func (m *RWMutex) Lock() {
	if controlled.Load() {
		point(OpLock, m, func() bool { return !m.announced })
		m.announced = true
		if m.readers > 0 {
			point(OpLockAcquire, m, func() bool { return m.readers == 0 })
		}
		m.held = true
		return
	}
	m.mu.Lock()
}

func (m *RWMutex) Unlock() {
	if controlled.Load() {
		if !m.held {
			panic("sync: Unlock of unlocked RWMutex")
		}
		m.held = false
		m.announced = false
		return
	}
	m.mu.Unlock()
}

func (m *RWMutex) RLock() {
	if controlled.Load() {
		point(OpRLock, m, func() bool { return !m.announced })
		m.readers++
		return
	}
	m.mu.RLock()
}

func (m *RWMutex) RUnlock() {
	if controlled.Load() {
		if m.readers <= 0 {
			panic("sync: RUnlock of unlocked RWMutex")
		}
		m.readers--
		return
	}
	m.mu.RUnlock()
}

func (m *RWMutex) TryLock() bool {
	if controlled.Load() {
		point(OpYield, m, func() bool { return true })
		if m.announced || m.readers > 0 {
			return false
		}
		m.announced, m.held = true, true
		return true
	}
	return m.mu.TryLock()
}

func (m *RWMutex) TryRLock() bool {
	if controlled.Load() {
		point(OpYield, m, func() bool { return true })
		if m.announced {
			return false
		}
		m.readers++
		return true
	}
	return m.mu.TryRLock()
}

func (m *RWMutex) RLocker() sync.Locker { return (*rlocker)(m) }

type rlocker RWMutex

func (r *rlocker) Lock()   { (*RWMutex)(r).RLock() }
func (r *rlocker) Unlock() { (*RWMutex)(r).RUnlock() }

type WaitGroup struct {
	wg sync.WaitGroup
	n  int
}

func (w *WaitGroup) Add(d int) {
	if controlled.Load() {
		w.n += d
		if w.n < 0 {
			panic("sync: negative WaitGroup counter")
		}
		return
	}
	w.wg.Add(d)
}
func (w *WaitGroup) Done() { w.Add(-1) }
func (w *WaitGroup) Wait() {
	if controlled.Load() {
		point(OpWGWait, w, func() bool { return w.n == 0 })
		return
	}
	w.wg.Wait()
}

// ---- atomics ----

type AtomicBool struct {
	v atomic.Bool
	c atomCell
}

func (a *AtomicBool) Load() bool {
	if controlled.Load() {
		atomLoadPoint(&a.c)
	}
	return a.v.Load()
}
func (a *AtomicBool) Store(x bool) {
	if controlled.Load() {
		atomStorePoint(&a.c)
	}
	a.v.Store(x)
}
func (a *AtomicBool) Swap(x bool) bool {
	if controlled.Load() {
		atomStorePoint(&a.c)
	}
	return a.v.Swap(x)
}
func (a *AtomicBool) CompareAndSwap(o, n bool) bool {
	if controlled.Load() {
		atomStorePoint(&a.c)
	}
	return a.v.CompareAndSwap(o, n)
}

type AtomicInt64 struct {
	v atomic.Int64
	c atomCell
}

func (a *AtomicInt64) Load() int64 {
	if controlled.Load() {
		atomLoadPoint(&a.c)
	}
	return a.v.Load()
}
func (a *AtomicInt64) Store(x int64) {
	if controlled.Load() {
		atomStorePoint(&a.c)
	}
	a.v.Store(x)
}
func (a *AtomicInt64) Add(d int64) int64 {
	if controlled.Load() {
		atomStorePoint(&a.c)
	}
	return a.v.Add(d)
}
func (a *AtomicInt64) Swap(x int64) int64 {
	if controlled.Load() {
		atomStorePoint(&a.c)
	}
	return a.v.Swap(x)
}
func (a *AtomicInt64) CompareAndSwap(o, n int64) bool {
	if controlled.Load() {
		atomStorePoint(&a.c)
	}
	return a.v.CompareAndSwap(o, n)
}

type AtomicUint64 struct {
	v atomic.Uint64
	c atomCell
}

func (a *AtomicUint64) Load() uint64 {
	if controlled.Load() {
		atomLoadPoint(&a.c)
	}
	return a.v.Load()
}
func (a *AtomicUint64) Store(x uint64) {
	if controlled.Load() {
		atomStorePoint(&a.c)
	}
	a.v.Store(x)
}
func (a *AtomicUint64) Add(d uint64) uint64 {
	if controlled.Load() {
		atomStorePoint(&a.c)
	}
	return a.v.Add(d)
}
func (a *AtomicUint64) Swap(x uint64) uint64 {
	if controlled.Load() {
		atomStorePoint(&a.c)
	}
	return a.v.Swap(x)
}
func (a *AtomicUint64) CompareAndSwap(o, n uint64) bool {
	if controlled.Load() {
		atomStorePoint(&a.c)
	}
	return a.v.CompareAndSwap(o, n)
}

type AtomicInt32 struct {
	v atomic.Int32
	c atomCell
}

func (a *AtomicInt32) Load() int32 {
	if controlled.Load() {
		atomLoadPoint(&a.c)
	}
	return a.v.Load()
}
func (a *AtomicInt32) Store(x int32) {
	if controlled.Load() {
		atomStorePoint(&a.c)
	}
	a.v.Store(x)
}
func (a *AtomicInt32) Add(d int32) int32 {
	if controlled.Load() {
		atomStorePoint(&a.c)
	}
	return a.v.Add(d)
}
func (a *AtomicInt32) CompareAndSwap(o, n int32) bool {
	if controlled.Load() {
		atomStorePoint(&a.c)
	}
	return a.v.CompareAndSwap(o, n)
}

type AtomicUint32 struct {
	v atomic.Uint32
	c atomCell
}

func (a *AtomicUint32) Load() uint32 {
	if controlled.Load() {
		atomLoadPoint(&a.c)
	}
	return a.v.Load()
}
func (a *AtomicUint32) Store(x uint32) {
	if controlled.Load() {
		atomStorePoint(&a.c)
	}
	a.v.Store(x)
}
func (a *AtomicUint32) Add(d uint32) uint32 {
	if controlled.Load() {
		atomStorePoint(&a.c)
	}
	return a.v.Add(d)
}
func (a *AtomicUint32) CompareAndSwap(o, n uint32) bool {
	if controlled.Load() {
		atomStorePoint(&a.c)
	}
	return a.v.CompareAndSwap(o, n)
}

type AtomicValue struct {
	v atomic.Value
	c atomCell
}

func (a *AtomicValue) Load() any {
	if controlled.Load() {
		atomLoadPoint(&a.c)
	}
	return a.v.Load()
}
func (a *AtomicValue) Store(x any) {
	if controlled.Load() {
		atomStorePoint(&a.c)
	}
	a.v.Store(x)
}
func (a *AtomicValue) Swap(x any) any {
	if controlled.Load() {
		atomStorePoint(&a.c)
	}
	return a.v.Swap(x)
}
func (a *AtomicValue) CompareAndSwap(o, n any) bool {
	if controlled.Load() {
		atomStorePoint(&a.c)
	}
	return a.v.CompareAndSwap(o, n)
}
