// Package verifrt is the runtime shared by the instrumented build of SugarDB
// (reached through the check-time overlay, never part of /repo) and by the
// verification harness.  It owns every source of nondeterminism listed in
// DESIGN.md section 1: clock, randomness, goroutines, locks, atomics,
// channels and the file system.
//
// Two modes:
//   - free:        primitives delegate to the real ones; goroutines are tracked so
//     that Quiesce() can wait for background work deterministically.
//   - controlled:  one thread runs at a time under the scheduler in sched.go.
package verifrt

import (
	"fmt"
	"reflect"
	"runtime"
	"runtime/debug"
	"sync"
	"sync/atomic"
	"time"
)

var controlled atomic.Bool // true while a controlled execution is in progress

// ---- goroutine tracking (free mode) ----

var (
	gmu      sync.Mutex
	gcond    = sync.NewCond(&gmu)
	gactive  int                   // tracked goroutines that are running (not parked in a receive)
	chanSent = map[uintptr]int64{} // per channel: sends started
	chanRecv = map[uintptr]int64{} // per channel: receives completed
	inflight int64                 // sum over channels of sent-recv
	bgPanics []string              // panics recovered from tracked goroutines
	sendBlocked int64              // goroutines currently inside a channel send (between BeforeSend and AfterSend)
	knownLeaks  int64              // senders established to be blocked for ever (no receiver will ever come)
	ggen        uint64             // bumped on every tracked event
)

func chanKey(ch any) uintptr {
	v := reflect.ValueOf(ch)
	if v.Kind() != reflect.Chan {
		panic(fmt.Sprintf("verifrt: not a channel: %T", ch))
	}
	return v.Pointer()
}

// Tracking epochs: ResetTracking starts a new epoch; goroutines of an abandoned instance (a panicked or hung
// one cannot be shut down) must not disturb the counters of the next instance when they finally move.
var gepoch uint64

type Tok uint64

// Go replaces every `go` statement of instrumented code.
func Go(f func()) {
	if controlled.Load() {
		schedSpawn(f, false, "")
		return
	}
	gmu.Lock()
	gactive++
	ggen++
	ep := gepoch
	gmu.Unlock()
	go func() {
		defer func() {
			if r := recover(); r != nil {
				gmu.Lock()
				if ep == gepoch {
					bgPanics = append(bgPanics, fmt.Sprintf("%v\n%s", r, debug.Stack()))
				}
				gmu.Unlock()
			}
			gmu.Lock()
			if ep == gepoch {
				gactive--
				ggen++
			}
			gcond.Broadcast()
			gmu.Unlock()
		}()
		f()
	}()
}

// CurrentTok is the token of the current environment epoch (for harness-side blocking points reached from goroutines
// of the code under test, e.g. a write to a connection whose peer has stopped reading).
func CurrentTok() Tok {
	gmu.Lock()
	defer gmu.Unlock()
	return Tok(gepoch)
}

// TrackBegin registers a harness-side activity (e.g. the goroutine that serves a connection).
func TrackBegin() Tok {
	gmu.Lock()
	gactive++
	ggen++
	t := Tok(gepoch)
	gmu.Unlock()
	return t
}
func TrackEnd(t Tok) {
	gmu.Lock()
	if uint64(t) == gepoch {
		gactive--
		ggen++
	}
	gcond.Broadcast()
	gmu.Unlock()
}

// Park / Unpark let harness-side blocking points (memConn.Read waiting for the
// next segment) count as "not running".
func Park(t Tok) {
	gmu.Lock()
	if uint64(t) == gepoch {
		gactive--
		ggen++
	}
	gcond.Broadcast()
	gmu.Unlock()
}
func Unpark(t Tok) {
	gmu.Lock()
	if uint64(t) == gepoch {
		gactive++
		ggen++
	}
	gmu.Unlock()
}

// Quiesce returns when no tracked goroutine is running and no message is in
// flight on an instrumented channel.  Free mode only.
func Quiesce() {
	QuiesceTimeout(time.Hour, 30*time.Millisecond)
}

// BgPanics returns and clears panics recovered from tracked goroutines.
func BgPanics() []string {
	gmu.Lock()
	defer gmu.Unlock()
	p := bgPanics
	bgPanics = nil
	return p
}

// ResetTracking forgets channel bookkeeping (between instances).
func ResetTracking() {
	gmu.Lock()
	chanSent = map[uintptr]int64{}
	chanRecv = map[uintptr]int64{}
	recvWaiting = map[uintptr]int64{}
	inflight = 0
	gepoch++
	gactive = 0
	sendBlocked = 0
	knownLeaks = 0
	ggen++
	bgPanics = nil
	gmu.Unlock()
}

// QuiesceTimeout waits until the instrumented code is idle: no tracked goroutine running and no message in
// flight.  A goroutine blocked in a send that nobody will ever receive (a leak) does not count as running once it
// has been stable for `settle`; the number of such senders is returned.  ok=false: not idle within max.
func QuiesceTimeout(max, settle time.Duration) (ok bool, leaked int) {
	start := time.Now()
	var candSince time.Time
	var candGen uint64
	for i := 0; ; i++ {
		gmu.Lock()
		a, pend, sb, kl, gen := gactive, pendingWakeups(), sendBlocked, knownLeaks, ggen
		gmu.Unlock()
		if int64(a) == kl && !pend && sb == kl {
			return true, int(kl)
		}
		if int64(a) == sb && !pend && sb > kl {
			// everything that is "running" is a sender without a receiver: a leak if it stays that way
			if candSince.IsZero() || candGen != gen {
				candSince, candGen = time.Now(), gen
			} else if time.Since(candSince) >= settle {
				gmu.Lock()
				if ggen == gen {
					knownLeaks = sb
					gmu.Unlock()
					return true, int(sb)
				}
				gmu.Unlock()
				candSince = time.Time{}
			}
		} else {
			candSince = time.Time{}
		}
		if time.Since(start) > max {
			return false, 0
		}
		switch {
		case i < 200:
			runtime.Gosched()
		case i < 2000:
			time.Sleep(20 * time.Microsecond)
		default:
			time.Sleep(time.Millisecond)
		}
	}
}

// ---- channel operations ----
//
// Free-mode bookkeeping: per channel the number of sends started and receives completed, and the number of
// goroutines parked in a receive/select on it.  A message counts as "in flight" (the system is not idle) only
// while some goroutine is parked waiting for that channel: a message left in a buffer that nobody waits for is inert.

var recvWaiting = map[uintptr]int64{}

func pendingWakeups() bool {
	for k, n := range recvWaiting {
		if n > 0 && chanSent[k] > chanRecv[k] {
			return true
		}
	}
	return false
}

func BeforeRecv(ch any) {
	if controlled.Load() {
		schedBeforeRecv(ch)
		return
	}
	k := chanKey(ch)
	gmu.Lock()
	gactive--
	recvWaiting[k]++
	ggen++
	gcond.Broadcast()
	gmu.Unlock()
}

func AfterRecv(ch any) {
	if controlled.Load() {
		schedAfterRecv(ch)
		return
	}
	k := chanKey(ch)
	gmu.Lock()
	gactive++
	chanRecv[k]++
	recvWaiting[k]--
	ggen++
	gmu.Unlock()
}

func BeforeSend(ch any) {
	if controlled.Load() {
		schedBeforeSend(ch)
		return
	}
	k := chanKey(ch)
	gmu.Lock()
	chanSent[k]++
	sendBlocked++
	ggen++
	gmu.Unlock()
}

func AfterSend(ch any) {
	if controlled.Load() {
		schedAfterSend(ch)
		return
	}
	gmu.Lock()
	sendBlocked--
	ggen++
	gmu.Unlock()
}

// BeforeSelect precedes a receive-only select.
func BeforeSelect(hasDefault bool, chans ...any) {
	if controlled.Load() {
		schedBeforeSelect(hasDefault, chans)
		return
	}
	if hasDefault {
		return
	}
	gmu.Lock()
	gactive--
	for _, c := range chans {
		recvWaiting[chanKey(c)]++
	}
	ggen++
	gcond.Broadcast()
	gmu.Unlock()
}

// AfterSelectRecv is the first statement of a receive case of a select; all lists every channel of the select.
func AfterSelectRecv(hasDefault bool, ch any, all ...any) {
	if controlled.Load() {
		schedAfterRecv(ch)
		return
	}
	if isRetired(ch) {
		runtime.Goexit() // see clock.go: the select fired on the closed ticker of an abandoned instance
	}
	k := chanKey(ch)
	gmu.Lock()
	if !hasDefault {
		gactive++
		for _, c := range all {
			recvWaiting[chanKey(c)]--
		}
	}
	chanRecv[k]++
	ggen++
	gmu.Unlock()
}

// AfterSelectDefault is the first statement of the default case.
func AfterSelectDefault() {
	if controlled.Load() {
		schedAfterDefault()
	}
}

// harnessNoteSend is used by the virtual tickers when they put a tick on a channel.
func harnessNoteSend(ch any) {
	k := chanKey(ch)
	gmu.Lock()
	chanSent[k]++
	ggen++
	gmu.Unlock()
}

// GC replaces runtime.GC in instrumented code.
func GC() {}

// Recv / Recv2 replace receive expressions (`<-ch`, `v, ok := <-ch`) wherever they occur.
func Recv[T any](ch <-chan T) T {
	BeforeRecv(ch)
	v, ok := <-ch
	if !ok && !controlled.Load() && isRetired(ch) {
		runtime.Goexit() // a goroutine of an abandoned instance woke up from its retired ticker
	}
	AfterRecv(ch)
	return v
}

func Recv2[T any](ch <-chan T) (T, bool) {
	BeforeRecv(ch)
	v, ok := <-ch
	if !ok && !controlled.Load() && isRetired(ch) {
		runtime.Goexit()
	}
	AfterRecv(ch)
	return v, ok
}
