// Package verifrt is the runtime shared by the instrumented build of SugarDB
// (reached through the check-time overlay, never part of /repo) and by the
// verification harness.  It owns every source of nondeterminism listed in
// DESIGN.md section 1: clock, randomness, goroutines, locks, atomics,
// channels and the file system.
//
// Two modes:
//   - free:        primitives delegate to the real ones; goroutines are tracked so
//     that Quiesce() can wait for background work deterministically.
//   - controlled:  one thread runs at a time under the scheduler in sched.go.
package verifrt

import (
	"fmt"
	"reflect"
	"runtime/debug"
	"sync"
	"sync/atomic"
)

var controlled atomic.Bool // true while a controlled execution is in progress

// ---- goroutine tracking (free mode) ----

var (
	gmu      sync.Mutex
	gcond    = sync.NewCond(&gmu)
	gactive  int                   // tracked goroutines that are running (not parked in a receive)
	chanSent = map[uintptr]int64{} // per channel: sends started
	chanRecv = map[uintptr]int64{} // per channel: receives completed
	inflight int64                 // sum over channels of sent-recv
	bgPanics []string              // panics recovered from tracked goroutines
)

func chanKey(ch any) uintptr {
	v := reflect.ValueOf(ch)
	if v.Kind() != reflect.Chan {
		panic(fmt.Sprintf("verifrt: not a channel: %T", ch))
	}
	return v.Pointer()
}

// Go replaces every `go` statement of instrumented code.
func Go(f func()) {
	if controlled.Load() {
		schedSpawn(f, false, "")
		return
	}
	gmu.Lock()
	gactive++
	gmu.Unlock()
	go func() {
		defer func() {
			if r := recover(); r != nil {
				gmu.Lock()
				bgPanics = append(bgPanics, fmt.Sprintf("%v\n%s", r, debug.Stack()))
				gmu.Unlock()
			}
			gmu.Lock()
			gactive--
			gcond.Broadcast()
			gmu.Unlock()
		}()
		f()
	}()
}

// Track runs f as a tracked activity of the calling goroutine (harness side:
// e.g. the goroutine that serves a connection).
func TrackBegin() {
	gmu.Lock()
	gactive++
	gmu.Unlock()
}
func TrackEnd() {
	gmu.Lock()
	gactive--
	gcond.Broadcast()
	gmu.Unlock()
}

// Park / Unpark let harness-side blocking points (memConn.Read waiting for the
// next segment) count as "not running".
func Park() {
	gmu.Lock()
	gactive--
	gcond.Broadcast()
	gmu.Unlock()
}
func Unpark() {
	gmu.Lock()
	gactive++
	gmu.Unlock()
}

// Quiesce returns when no tracked goroutine is running and no message is in
// flight on an instrumented channel.  Free mode only.
func Quiesce() {
	gmu.Lock()
	for gactive != 0 || inflight != 0 {
		gcond.Wait()
	}
	gmu.Unlock()
}

// BgPanics returns and clears panics recovered from tracked goroutines.
func BgPanics() []string {
	gmu.Lock()
	defer gmu.Unlock()
	p := bgPanics
	bgPanics = nil
	return p
}

// ResetTracking forgets channel bookkeeping (between instances).
func ResetTracking() {
	gmu.Lock()
	chanSent = map[uintptr]int64{}
	chanRecv = map[uintptr]int64{}
	inflight = 0
	bgPanics = nil
	gmu.Unlock()
}

// ---- channel operations ----

func BeforeRecv(ch any) {
	if controlled.Load() {
		schedBeforeRecv(ch)
		return
	}
	gmu.Lock()
	gactive--
	gcond.Broadcast()
	gmu.Unlock()
}

func AfterRecv(ch any) {
	if controlled.Load() {
		schedAfterRecv(ch)
		return
	}
	k := chanKey(ch)
	gmu.Lock()
	gactive++
	chanRecv[k]++
	inflight--
	gmu.Unlock()
}

// AfterRecvClosed: a receive that returned because of a close (no message consumed).
func BeforeSend(ch any) {
	if controlled.Load() {
		schedBeforeSend(ch)
		return
	}
	k := chanKey(ch)
	gmu.Lock()
	chanSent[k]++
	inflight++
	gmu.Unlock()
}

func AfterSend(ch any) {
	if controlled.Load() {
		schedAfterSend(ch)
		return
	}
}

// BeforeSelect precedes a receive-only select.
func BeforeSelect(hasDefault bool, chans ...any) {
	if controlled.Load() {
		schedBeforeSelect(hasDefault, chans)
		return
	}
	if hasDefault {
		return
	}
	gmu.Lock()
	gactive--
	gcond.Broadcast()
	gmu.Unlock()
}

// AfterSelectRecv is the first statement of a receive case of a select.
func AfterSelectRecv(hasDefault bool, ch any) {
	if controlled.Load() {
		schedAfterRecv(ch)
		return
	}
	k := chanKey(ch)
	gmu.Lock()
	if !hasDefault {
		gactive++
	}
	chanRecv[k]++
	inflight--
	gmu.Unlock()
}

// AfterSelectDefault is the first statement of the default case.
func AfterSelectDefault() {
	if controlled.Load() {
		schedAfterDefault()
	}
}

// HarnessSend is used by the harness (virtual tickers) to put a value on an
// instrumented channel without blocking; it keeps the in-flight accounting.
func harnessNoteSend(ch any) {
	k := chanKey(ch)
	gmu.Lock()
	chanSent[k]++
	inflight++
	gmu.Unlock()
}

// GC replaces runtime.GC in instrumented code.
func GC() {}
