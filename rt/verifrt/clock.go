package verifrt

import (
	"sort"
	"sync"
	"time"
)

// Virtual clock.  When active, Now/NewTicker/After of instrumented code read it.

var (
	cmu       sync.Mutex
	vclockOn  bool
	vnow      time.Time
	vtickers  []*vticker
	vtimerSeq int
)

type vticker struct {
	id      int
	c       chan time.Time
	period  time.Duration // 0 for one-shot (After)
	next    time.Time
	stopped bool
	t       *time.Ticker
}

// Epoch is the instant the virtual clock starts at (a fixed date, whole second).
var Epoch = time.Date(2030, 1, 2, 3, 4, 5, 0, time.UTC)

// Retired ticker channels.  When the environment is reset the goroutines of abandoned instances are still blocked on
// their virtual tickers (`for { ...; <-ticker.C }` loops never end) and would keep every abandoned instance alive -
// tens of thousands per crash-enumeration unit.  Their channels are closed and remembered; a goroutine that wakes up
// from a receive on a retired channel belongs to a dead instance and is ended with runtime.Goexit (its deferred calls
// run).  The channel objects are retained so that their addresses cannot be reused by live channels.
var (
	retiredKeys  = map[uintptr]struct{}{}
	retiredChans []chan time.Time
)

func retireTickersLocked() {
	for _, t := range vtickers {
		k := chanKey(t.c)
		if _, done := retiredKeys[k]; done {
			continue
		}
		retiredKeys[k] = struct{}{}
		retiredChans = append(retiredChans, t.c)
		close(t.c)
	}
	vtickers = nil
	// the goroutines of long-retired channels have woken up and ended long ago: forget the oldest half from time to time
	if len(retiredChans) > 200000 {
		half := len(retiredChans) / 2
		for _, c := range retiredChans[:half] {
			delete(retiredKeys, chanKey(c))
		}
		retiredChans = append([]chan time.Time{}, retiredChans[half:]...)
	}
}

// isRetired reports whether ch is the channel of a ticker of an abandoned environment.
func isRetired(ch any) bool {
	k := chanKey(ch)
	cmu.Lock()
	_, ok := retiredKeys[k]
	cmu.Unlock()
	return ok
}

// UseVirtualClock switches the clock on and resets it to Epoch.
func UseVirtualClock() {
	cmu.Lock()
	vclockOn = true
	vnow = Epoch
	retireTickersLocked()
	cmu.Unlock()
}

func UseRealClock() {
	cmu.Lock()
	vclockOn = false
	retireTickersLocked()
	cmu.Unlock()
}

func Now() time.Time {
	cmu.Lock()
	defer cmu.Unlock()
	if !vclockOn {
		return time.Now()
	}
	return vnow
}

func Since(t time.Time) time.Duration { return Now().Sub(t) }
func Until(t time.Time) time.Duration { return t.Sub(Now()) }

// SetNow sets the virtual time without firing tickers (used to skew a replica clock).
func SetNow(t time.Time) {
	cmu.Lock()
	vnow = t
	cmu.Unlock()
}

func NewTicker(d time.Duration) *time.Ticker {
	cmu.Lock()
	defer cmu.Unlock()
	if !vclockOn {
		return time.NewTicker(d)
	}
	if d <= 0 {
		panic("non-positive interval for NewTicker")
	}
	vtimerSeq++
	c := make(chan time.Time, 1)
	t := &time.Ticker{C: c}
	vtickers = append(vtickers, &vticker{id: vtimerSeq, c: c, period: d, next: vnow.Add(d), t: t})
	return t
}

func After(d time.Duration) <-chan time.Time {
	cmu.Lock()
	defer cmu.Unlock()
	if !vclockOn {
		return time.After(d)
	}
	vtimerSeq++
	c := make(chan time.Time, 1)
	vtickers = append(vtickers, &vticker{id: vtimerSeq, c: c, period: 0, next: vnow.Add(d)})
	return c
}

func Sleep(d time.Duration) {
	cmu.Lock()
	on := vclockOn
	cmu.Unlock()
	if !on {
		time.Sleep(d)
		return
	}
	// Under the virtual clock sleeping code simply continues: no instrumented
	// code path of this repository sleeps for synchronisation.
}

// Tickers reports the number of live virtual tickers (evidence / self checks).
func Tickers() int {
	cmu.Lock()
	defer cmu.Unlock()
	n := 0
	for _, t := range vtickers {
		if !t.stopped {
			n++
		}
	}
	return n
}

// Advance moves the virtual clock forward by d, delivering every tick that
// falls due, in time order; after each delivered tick it calls settle (the
// harness passes Quiesce in free mode) so that the tick's handler runs at the
// tick's own instant.
func Advance(d time.Duration, settle func()) {
	cmu.Lock()
	target := vnow.Add(d)
	for {
		// earliest due ticker
		var due []*vticker
		for _, t := range vtickers {
			if !t.stopped && !t.next.After(target) {
				due = append(due, t)
			}
		}
		if len(due) == 0 {
			break
		}
		sort.Slice(due, func(i, j int) bool {
			if !due[i].next.Equal(due[j].next) {
				return due[i].next.Before(due[j].next)
			}
			return due[i].id < due[j].id
		})
		t := due[0]
		vnow = t.next
		at := vnow
		if t.period > 0 {
			t.next = t.next.Add(t.period)
		} else {
			t.stopped = true
		}
		c := t.c
		cmu.Unlock()
		deliverTick(c, at)
		if settle != nil {
			settle()
		}
		cmu.Lock()
	}
	vnow = target
	cmu.Unlock()
}

func deliverTick(c chan time.Time, at time.Time) {
	if len(c) < cap(c) {
		if !controlled.Load() {
			harnessNoteSend(c)
		}
		c <- at
	}
}
