package verifrt

import (
	"errors"
	"io"
	"io/fs"
	"os"
	"path"
	"sort"
	"strings"
	"sync"
	"time"
)

// In-memory POSIX-like file system with an operation journal.  Active when a
// MemFS has been installed with SetFS; otherwise the shims pass through to os.

type FSOpKind int

const (
	FSCreate   FSOpKind = iota // create empty file (path)
	FSMkdir                    // mkdir (path)
	FSWrite                    // write Data at Off (path)
	FSTruncate                 // truncate to Size (path)
	FSSync                     // fsync (path)
	FSRename                   // rename path -> Path2
	FSRemove                   // remove path (file or tree)
	FSMark                     // harness marker (Tag), no effect
)

var fsOpNames = []string{"create", "mkdir", "write", "truncate", "sync", "rename", "remove", "mark"}

func (k FSOpKind) String() string { return fsOpNames[k] }

type FSOp struct {
	Kind  FSOpKind
	Path  string
	Path2 string
	Off   int64
	Data  []byte
	Size  int64
	Tag   string
}

type inode struct {
	data []byte
}

type MemFS struct {
	mu      sync.Mutex
	files   map[string]*inode
	dirs    map[string]bool
	journal []FSOp
	logging bool
	failAt   int // >= 0: the mutating operation that would become journal entry failAt fails once with ErrInjected
	injected int // number of failures injected so far
}

// ErrInjected is the I/O error of an injected fault (fault enumeration: every file operation of an action fails once).
var ErrInjected = errors.New("input/output error (injected)")

// FailAt arms one injected failure: the mutating operation issued when the journal holds exactly n entries fails.
func (m *MemFS) FailAt(n int) { m.mu.Lock(); m.failAt = n; m.mu.Unlock() }

// Injected reports how many failures were injected.
func (m *MemFS) Injected() int { m.mu.Lock(); defer m.mu.Unlock(); return m.injected }

// inject is called (lock held) at the start of every mutating operation.
func (m *MemFS) inject(op, p string) error {
	if m.failAt >= 0 && len(m.journal) == m.failAt {
		m.failAt = -1
		m.injected++
		return &fs.PathError{Op: op, Path: p, Err: ErrInjected}
	}
	return nil
}

func NewMemFS() *MemFS {
	return &MemFS{files: map[string]*inode{}, dirs: map[string]bool{"/": true}, logging: true, failAt: -1}
}

var (
	fsmu  sync.Mutex
	curFS *MemFS
)

func SetFS(f *MemFS) { fsmu.Lock(); curFS = f; fsmu.Unlock() }
func FS() *MemFS     { fsmu.Lock(); defer fsmu.Unlock(); return curFS }

// Clone returns a deep copy without journal.
func (m *MemFS) Clone() *MemFS {
	m.mu.Lock()
	defer m.mu.Unlock()
	n := NewMemFS()
	for p, i := range m.files {
		n.files[p] = &inode{data: append([]byte(nil), i.data...)}
	}
	for d := range m.dirs {
		n.dirs[d] = true
	}
	return n
}

func (m *MemFS) Journal() []FSOp {
	m.mu.Lock()
	defer m.mu.Unlock()
	return append([]FSOp(nil), m.journal...)
}

func (m *MemFS) JournalLen() int {
	m.mu.Lock()
	defer m.mu.Unlock()
	return len(m.journal)
}

// Mark appends a harness marker to the journal.
func (m *MemFS) Mark(tag string) {
	m.mu.Lock()
	m.journal = append(m.journal, FSOp{Kind: FSMark, Tag: tag})
	m.mu.Unlock()
}

func (m *MemFS) log(op FSOp) {
	if m.logging {
		m.journal = append(m.journal, op)
	}
}

// Apply replays one journal operation onto the file system (used to build crash images).
func (m *MemFS) Apply(op FSOp) {
	m.mu.Lock()
	defer m.mu.Unlock()
	switch op.Kind {
	case FSCreate:
		m.files[op.Path] = &inode{}
	case FSMkdir:
		m.dirs[op.Path] = true
	case FSWrite:
		f := m.files[op.Path]
		if f == nil {
			f = &inode{}
			m.files[op.Path] = f
		}
		writeAt(f, op.Off, op.Data)
	case FSTruncate:
		if f := m.files[op.Path]; f != nil {
			truncateTo(f, op.Size)
		}
	case FSRename:
		if f := m.files[op.Path]; f != nil {
			m.files[op.Path2] = f
			delete(m.files, op.Path)
		}
	case FSRemove:
		m.removeLocked(op.Path)
	}
}

func (m *MemFS) removeLocked(p string) {
	delete(m.files, p)
	delete(m.dirs, p)
	pre := p + "/"
	for f := range m.files {
		if strings.HasPrefix(f, pre) {
			delete(m.files, f)
		}
	}
	for d := range m.dirs {
		if strings.HasPrefix(d, pre) {
			delete(m.dirs, d)
		}
	}
}

func writeAt(f *inode, off int64, data []byte) {
	end := off + int64(len(data))
	if int64(len(f.data)) < end {
		f.data = append(f.data, make([]byte, end-int64(len(f.data)))...)
	}
	copy(f.data[off:], data)
}

func truncateTo(f *inode, size int64) {
	if int64(len(f.data)) > size {
		f.data = f.data[:size]
	} else {
		f.data = append(f.data, make([]byte, size-int64(len(f.data)))...)
	}
}

// Files returns path -> content (copy), sorted listing helper for dumps.
func (m *MemFS) Files() map[string][]byte {
	m.mu.Lock()
	defer m.mu.Unlock()
	out := map[string][]byte{}
	for p, i := range m.files {
		out[p] = append([]byte(nil), i.data...)
	}
	return out
}

func (m *MemFS) Dirs() []string {
	m.mu.Lock()
	defer m.mu.Unlock()
	var out []string
	for d := range m.dirs {
		out = append(out, d)
	}
	sort.Strings(out)
	return out
}

// WriteFileRaw installs content without journalling (harness set-up).
func (m *MemFS) WriteFileRaw(p string, data []byte) {
	m.mu.Lock()
	defer m.mu.Unlock()
	p = path.Clean(p)
	for d := path.Dir(p); ; d = path.Dir(d) {
		m.dirs[d] = true
		if d == "/" || d == "." {
			break
		}
	}
	m.files[p] = &inode{data: append([]byte(nil), data...)}
}

// ---- File ----

type File struct {
	real   *os.File
	fs     *MemFS
	path   string
	ino    *inode
	off    int64
	flag   int
	closed bool
}

func notExist(op, p string) error { return &fs.PathError{Op: op, Path: p, Err: fs.ErrNotExist} }

func clean(p string) string {
	if !strings.HasPrefix(p, "/") {
		p = "/cwd/" + p
	}
	return path.Clean(p)
}

func OpenFile(name string, flag int, perm os.FileMode) (*File, error) {
	m := FS()
	if m == nil {
		f, err := os.OpenFile(name, flag, perm)
		if err != nil {
			return nil, err
		}
		return &File{real: f}, nil
	}
	p := clean(name)
	m.mu.Lock()
	defer m.mu.Unlock()
	if m.dirs[p] {
		if flag&(os.O_WRONLY|os.O_RDWR) != 0 {
			return nil, &fs.PathError{Op: "open", Path: name, Err: errors.New("is a directory")}
		}
		return &File{fs: m, path: p, flag: flag}, nil
	}
	ino, ok := m.files[p]
	if !ok {
		if flag&os.O_CREATE == 0 {
			return nil, notExist("open", name)
		}
		if !m.dirs[path.Dir(p)] {
			return nil, notExist("open", name)
		}
		if err := m.inject("open", name); err != nil {
			return nil, err
		}
		ino = &inode{}
		m.files[p] = ino
		m.log(FSOp{Kind: FSCreate, Path: p})
	} else {
		if flag&os.O_CREATE != 0 && flag&os.O_EXCL != 0 {
			return nil, &fs.PathError{Op: "open", Path: name, Err: fs.ErrExist}
		}
		if flag&os.O_TRUNC != 0 && flag&(os.O_WRONLY|os.O_RDWR) != 0 {
			if err := m.inject("open", name); err != nil {
				return nil, err
			}
			if len(ino.data) != 0 {
				ino.data = nil
			}
			m.log(FSOp{Kind: FSTruncate, Path: p, Size: 0})
		}
	}
	return &File{fs: m, path: p, ino: ino, flag: flag}, nil
}

func Open(name string) (*File, error) { return OpenFile(name, os.O_RDONLY, 0) }
func Create(name string) (*File, error) {
	return OpenFile(name, os.O_RDWR|os.O_CREATE|os.O_TRUNC, 0666)
}

func MkdirAll(p string, perm os.FileMode) error {
	m := FS()
	if m == nil {
		return os.MkdirAll(p, perm)
	}
	p = clean(p)
	m.mu.Lock()
	defer m.mu.Unlock()
	if _, isFile := m.files[p]; isFile {
		return &fs.PathError{Op: "mkdir", Path: p, Err: errors.New("not a directory")}
	}
	var todo []string
	for d := p; !m.dirs[d]; d = path.Dir(d) {
		if _, isFile := m.files[d]; isFile {
			return &fs.PathError{Op: "mkdir", Path: d, Err: errors.New("not a directory")}
		}
		todo = append(todo, d)
		if d == "/" {
			break
		}
	}
	for i := len(todo) - 1; i >= 0; i-- {
		if err := m.inject("mkdir", todo[i]); err != nil {
			return err
		}
		m.dirs[todo[i]] = true
		m.log(FSOp{Kind: FSMkdir, Path: todo[i]})
	}
	return nil
}

func Mkdir(p string, perm os.FileMode) error {
	m := FS()
	if m == nil {
		return os.Mkdir(p, perm)
	}
	p = clean(p)
	m.mu.Lock()
	defer m.mu.Unlock()
	if m.dirs[p] {
		return &fs.PathError{Op: "mkdir", Path: p, Err: fs.ErrExist}
	}
	if _, isFile := m.files[p]; isFile {
		return &fs.PathError{Op: "mkdir", Path: p, Err: fs.ErrExist}
	}
	if !m.dirs[path.Dir(p)] {
		return notExist("mkdir", p)
	}
	m.dirs[p] = true
	m.log(FSOp{Kind: FSMkdir, Path: p})
	return nil
}

func Remove(p string) error {
	m := FS()
	if m == nil {
		return os.Remove(p)
	}
	p = clean(p)
	m.mu.Lock()
	defer m.mu.Unlock()
	if _, ok := m.files[p]; !ok && !m.dirs[p] {
		return notExist("remove", p)
	}
	m.removeLocked(p)
	m.log(FSOp{Kind: FSRemove, Path: p})
	return nil
}

func RemoveAll(p string) error {
	m := FS()
	if m == nil {
		return os.RemoveAll(p)
	}
	p = clean(p)
	m.mu.Lock()
	defer m.mu.Unlock()
	m.removeLocked(p)
	m.log(FSOp{Kind: FSRemove, Path: p})
	return nil
}

func Rename(o, n string) error {
	m := FS()
	if m == nil {
		return os.Rename(o, n)
	}
	o, n = clean(o), clean(n)
	m.mu.Lock()
	defer m.mu.Unlock()
	f, ok := m.files[o]
	if !ok {
		return notExist("rename", o)
	}
	m.files[n] = f
	delete(m.files, o)
	m.log(FSOp{Kind: FSRename, Path: o, Path2: n})
	return nil
}

func ReadFile(name string) ([]byte, error) {
	f, err := Open(name)
	if err != nil {
		return nil, err
	}
	defer f.Close()
	return io.ReadAll(f)
}

func WriteFile(name string, data []byte, perm os.FileMode) error {
	f, err := OpenFile(name, os.O_WRONLY|os.O_CREATE|os.O_TRUNC, perm)
	if err != nil {
		return err
	}
	_, err = f.Write(data)
	if e := f.Close(); err == nil {
		err = e
	}
	return err
}

type memInfo struct {
	name string
	size int64
	dir  bool
}

func (i memInfo) Name() string { return i.name }
func (i memInfo) Size() int64  { return i.size }
func (i memInfo) Mode() fs.FileMode {
	if i.dir {
		return fs.ModeDir | 0777
	}
	return 0666
}
func (i memInfo) ModTime() time.Time { return time.Time{} }
func (i memInfo) IsDir() bool        { return i.dir }
func (i memInfo) Sys() any           { return nil }

func Stat(name string) (fs.FileInfo, error) {
	m := FS()
	if m == nil {
		return os.Stat(name)
	}
	p := clean(name)
	m.mu.Lock()
	defer m.mu.Unlock()
	if m.dirs[p] {
		return memInfo{name: path.Base(p), dir: true}, nil
	}
	if f, ok := m.files[p]; ok {
		return memInfo{name: path.Base(p), size: int64(len(f.data))}, nil
	}
	return nil, notExist("stat", name)
}

func (f *File) Name() string {
	if f.real != nil {
		return f.real.Name()
	}
	return f.path
}

func (f *File) Read(b []byte) (int, error) {
	if f.real != nil {
		return f.real.Read(b)
	}
	f.fs.mu.Lock()
	defer f.fs.mu.Unlock()
	if f.closed {
		return 0, fs.ErrClosed
	}
	if f.ino == nil {
		return 0, &fs.PathError{Op: "read", Path: f.path, Err: errors.New("is a directory")}
	}
	if f.flag&os.O_WRONLY != 0 {
		return 0, &fs.PathError{Op: "read", Path: f.path, Err: errors.New("bad file descriptor")}
	}
	if f.off >= int64(len(f.ino.data)) {
		if len(b) == 0 {
			return 0, nil
		}
		return 0, io.EOF
	}
	n := copy(b, f.ino.data[f.off:])
	f.off += int64(n)
	return n, nil
}

func (f *File) Write(b []byte) (int, error) {
	if f.real != nil {
		return f.real.Write(b)
	}
	if controlled.Load() {
		// a file write is a visible operation: another thread may run between two writes of one thread (e.g. between a
		// marker record and the record it announces)
		point(OpYield, f.fs, func() bool { return true })
	}
	f.fs.mu.Lock()
	defer f.fs.mu.Unlock()
	if f.closed {
		return 0, fs.ErrClosed
	}
	if f.ino == nil || f.flag&(os.O_WRONLY|os.O_RDWR) == 0 {
		return 0, &fs.PathError{Op: "write", Path: f.path, Err: errors.New("bad file descriptor")}
	}
	if err := f.fs.inject("write", f.path); err != nil {
		return 0, err
	}
	if f.flag&os.O_APPEND != 0 {
		f.off = int64(len(f.ino.data))
	}
	writeAt(f.ino, f.off, b)
	f.fs.log(FSOp{Kind: FSWrite, Path: f.path, Off: f.off, Data: append([]byte(nil), b...)})
	f.off += int64(len(b))
	return len(b), nil
}

func (f *File) WriteString(s string) (int, error) { return f.Write([]byte(s)) }

// WriteAt writes at an absolute offset without moving the file position (os.File.WriteAt).
func (f *File) WriteAt(b []byte, off int64) (int, error) {
	if f.real != nil {
		return f.real.WriteAt(b, off)
	}
	if controlled.Load() {
		point(OpYield, f.fs, func() bool { return true })
	}
	f.fs.mu.Lock()
	defer f.fs.mu.Unlock()
	if f.closed {
		return 0, fs.ErrClosed
	}
	if off < 0 {
		return 0, &fs.PathError{Op: "writeat", Path: f.path, Err: errors.New("negative offset")}
	}
	if f.ino == nil || f.flag&(os.O_WRONLY|os.O_RDWR) == 0 {
		return 0, &fs.PathError{Op: "write", Path: f.path, Err: errors.New("bad file descriptor")}
	}
	if f.flag&os.O_APPEND != 0 {
		return 0, errors.New("os: invalid use of WriteAt on file opened with O_APPEND")
	}
	if err := f.fs.inject("write", f.path); err != nil {
		return 0, err
	}
	writeAt(f.ino, off, b)
	f.fs.log(FSOp{Kind: FSWrite, Path: f.path, Off: off, Data: append([]byte(nil), b...)})
	return len(b), nil
}

// ReadAt reads from an absolute offset without moving the file position (os.File.ReadAt).
func (f *File) ReadAt(b []byte, off int64) (int, error) {
	if f.real != nil {
		return f.real.ReadAt(b, off)
	}
	f.fs.mu.Lock()
	defer f.fs.mu.Unlock()
	if f.closed {
		return 0, fs.ErrClosed
	}
	if off < 0 {
		return 0, &fs.PathError{Op: "readat", Path: f.path, Err: errors.New("negative offset")}
	}
	if f.ino == nil {
		return 0, &fs.PathError{Op: "read", Path: f.path, Err: errors.New("is a directory")}
	}
	if f.flag&os.O_WRONLY != 0 {
		return 0, &fs.PathError{Op: "read", Path: f.path, Err: errors.New("bad file descriptor")}
	}
	if off >= int64(len(f.ino.data)) {
		return 0, io.EOF
	}
	n := copy(b, f.ino.data[off:])
	if n < len(b) {
		return n, io.EOF
	}
	return n, nil
}

func (f *File) Seek(off int64, whence int) (int64, error) {
	if f.real != nil {
		return f.real.Seek(off, whence)
	}
	f.fs.mu.Lock()
	defer f.fs.mu.Unlock()
	if f.closed {
		return 0, fs.ErrClosed
	}
	var base int64
	switch whence {
	case io.SeekStart:
	case io.SeekCurrent:
		base = f.off
	case io.SeekEnd:
		if f.ino != nil {
			base = int64(len(f.ino.data))
		}
	}
	if base+off < 0 {
		return 0, &fs.PathError{Op: "seek", Path: f.path, Err: errors.New("invalid argument")}
	}
	f.off = base + off
	return f.off, nil
}

func (f *File) Truncate(size int64) error {
	if f.real != nil {
		return f.real.Truncate(size)
	}
	f.fs.mu.Lock()
	defer f.fs.mu.Unlock()
	if f.closed {
		return fs.ErrClosed
	}
	if f.ino == nil || f.flag&(os.O_WRONLY|os.O_RDWR) == 0 {
		return &fs.PathError{Op: "truncate", Path: f.path, Err: errors.New("invalid argument")}
	}
	truncateTo(f.ino, size)
	f.fs.log(FSOp{Kind: FSTruncate, Path: f.path, Size: size})
	return nil
}

func (f *File) Sync() error {
	if f.real != nil {
		return f.real.Sync()
	}
	f.fs.mu.Lock()
	defer f.fs.mu.Unlock()
	if f.closed {
		return fs.ErrClosed
	}
	if err := f.fs.inject("sync", f.path); err != nil {
		return err
	}
	f.fs.log(FSOp{Kind: FSSync, Path: f.path})
	return nil
}

func (f *File) Close() error {
	if f.real != nil {
		return f.real.Close()
	}
	f.fs.mu.Lock()
	defer f.fs.mu.Unlock()
	if f.closed {
		return fs.ErrClosed
	}
	f.closed = true
	return nil
}

func (f *File) Stat() (fs.FileInfo, error) {
	if f.real != nil {
		return f.real.Stat()
	}
	f.fs.mu.Lock()
	defer f.fs.mu.Unlock()
	if f.ino == nil {
		return memInfo{name: path.Base(f.path), dir: true}, nil
	}
	return memInfo{name: path.Base(f.path), size: int64(len(f.ino.data))}, nil
}
