package verifrt

import (
	"math/rand"
	"sync"
)

// Randomness front.  Instrumented code's math/rand calls land here.  Answers
// come (in this order) from a scripted queue of choices (enumeration of random
// draws as environment choices), else from a seeded stream.

var (
	rmu      sync.Mutex
	rsrc     = rand.New(rand.NewSource(1))
	rscript  []int // scripted answers, consumed first
	rlog     []RandDraw
	rlogging bool
)

type RandDraw struct{ N, Answer int }

func SeedRand(seed int64) {
	rmu.Lock()
	rsrc = rand.New(rand.NewSource(seed))
	rscript = nil
	rlog = nil
	rmu.Unlock()
}

// ScriptRand sets the answers for the next draws (each taken modulo its n).
func ScriptRand(answers []int) {
	rmu.Lock()
	rscript = append([]int(nil), answers...)
	rmu.Unlock()
}

// LogRand turns on recording of draws; TakeRandLog returns and clears them.
func LogRand(on bool) {
	rmu.Lock()
	rlogging = on
	rlog = nil
	rmu.Unlock()
}
func TakeRandLog() []RandDraw {
	rmu.Lock()
	defer rmu.Unlock()
	l := rlog
	rlog = nil
	return l
}

func Intn(n int) int {
	if n <= 0 {
		panic("invalid argument to Intn")
	}
	rmu.Lock()
	defer rmu.Unlock()
	var a int
	if len(rscript) > 0 {
		a = rscript[0] % n
		rscript = rscript[1:]
	} else {
		a = rsrc.Intn(n)
	}
	if rlogging {
		rlog = append(rlog, RandDraw{n, a})
	}
	return a
}

func Int() int                          { return Intn(1 << 30) }
func Int63() int64                      { return int64(Intn(1<<30))<<30 | int64(Intn(1<<30)) }
func Int31n(n int32) int32              { return int32(Intn(int(n))) }
func Int63n(n int64) int64              { return int64(Intn(int(n))) }
func Float64() float64                  { return float64(Intn(1<<30)) / float64(1<<30) }
func Shuffle(n int, swap func(i, j int)) {
	for i := n - 1; i > 0; i-- {
		j := Intn(i + 1)
		swap(i, j)
	}
}
func Perm(n int) []int {
	m := make([]int, n)
	for i := range m {
		m[i] = i
	}
	Shuffle(n, func(i, j int) { m[i], m[j] = m[j], m[i] })
	return m
}
