package verifrt

import (
	"fmt"
	"os"
	"reflect"
	"sync"
	"runtime"
	"runtime/debug"
	"sort"
	"strings"
	"sync/atomic"
	"time"
)

// Cooperative scheduler for controlled mode.  Exactly one thread runs at a
// time (a rendezvous pair on an unbuffered channel is released together and
// both park again at once).  Threads park *before* each synchronisation
// operation; the scheduler picks among the threads whose pending operation is
// enabled.  The choice is delegated to a Chooser, so the explorer (DFS with
// preemption bounding) lives in the harness.

type OpKind int

const (
	OpStart OpKind = iota
	OpLock
	OpLockAcquire // second half of a write lock that had to wait for readers
	OpRLock
	OpWGWait
	OpLoad
	OpStore
	OpRecv
	OpSend
	OpSelect
	OpYield
	OpHarness // harness-defined blocking point (e.g. wait for a reply)
)

var opNames = map[OpKind]string{OpStart: "start", OpLock: "lock", OpLockAcquire: "lock-acquire", OpRLock: "rlock",
	OpWGWait: "wg-wait", OpLoad: "load", OpStore: "store", OpRecv: "recv", OpSend: "send", OpSelect: "select",
	OpYield: "yield", OpHarness: "harness"}

func (k OpKind) String() string { return opNames[k] }

type pendingOp struct {
	kind    OpKind
	obj     any
	objName string
	enabled func() bool
	chans   []uintptr // select
	hasDef  bool
}

type Thread struct {
	ID     int
	Name   string
	Daemon bool
	wake   chan struct{}
	op     pendingOp
	done   bool
	parked bool
	// eager start: parent waits on this for the child's first park/exit
	eagerWait chan struct{}
	// spin detection: atomics loaded since the last non-load operation, with the version seen
	loads map[*atomCell]uint64
	gid  string
	Main bool // started by RunPhase (must finish) as opposed to spawned by instrumented code
	Panic     string
}

// Point describes one scheduling decision offered to the Chooser.
type Point struct {
	Enabled    []int    // thread ids, canonical order: current thread first if enabled, then ascending
	Ops        []string // description of each enabled thread's pending op (same order)
	CurEnabled bool     // the previously running thread is Enabled[0]
	Cur        int      // id of the previously running thread (-1 if none)
}

// Chooser picks the index into Point.Enabled.
type Chooser interface {
	Choose(p Point) int
}

type ChooserFunc func(p Point) int

func (f ChooserFunc) Choose(p Point) int { return f(p) }

// FirstChooser always continues the current thread (or the lowest id).
var FirstChooser = ChooserFunc(func(Point) int { return 0 })

type PhaseResult struct {
	Points    int
	Deadlock  bool
	Blocked   []string // description of blocked non-daemon threads at a deadlock
	Livelock  bool     // only spinning threads remained
	Truncated bool     // point budget exhausted
	Stuck     bool     // a thread blocked natively (engine limitation)
	Panics    []string
}

type sched struct {
	threads  []*Thread
	cur      *Thread
	events   chan struct{} // one token per thread that parked or finished
	running  int
	nextID   int
	chooser  Chooser
	maxPts   int
	rdv      atomic.Pointer[Thread] // partner thread released for a rendezvous, until it parks again
	names    map[any]string
	panics   []string
	trace    []string
	tracing  bool
	nameSeq  map[string]int
	stuckDur time.Duration
	tokLog   []string
	noEager  bool
	stuck    bool
}

var s *sched

// BeginControlled enters controlled mode.  All instrumented code must from now
// on run inside threads started by RunPhase (or spawned by those).
func BeginControlled() {
	if s != nil {
		panic("verifrt: nested controlled mode")
	}
	s = &sched{events: make(chan struct{}, 1024), names: map[any]string{},
		nameSeq: map[string]int{}, maxPts: 20000, stuckDur: 8 * time.Second}
	controlled.Store(true)
}

// EndControlled leaves controlled mode.  Threads still parked are abandoned.
func EndControlled() {
	controlled.Store(false)
	s = nil
}

// SetEagerStart(false) makes the start of every spawned goroutine a scheduling point of its own (needed when
// the spawned code has visible effects before its first synchronisation operation, e.g. writes to a connection).
func SetEagerStart(on bool) {
	if s != nil {
		s.noEager = !on
	}
}

// SetTracing records a textual trace of scheduling steps (for replay artefacts).
func SetTracing(on bool) {
	if s != nil {
		s.tracing = on
	}
}
func TakeTrace() []string {
	if s == nil {
		return nil
	}
	t := s.trace
	s.trace = nil
	return t
}

// NameObject gives a synchronisation object a stable, human-readable name for traces.
func NameObject(obj any, name string) {
	if s != nil {
		s.names[obj] = name
	}
}

func (sc *sched) objName(obj any) string {
	if n, ok := sc.names[obj]; ok {
		return n
	}
	t := fmt.Sprintf("%T", obj)
	t = strings.TrimPrefix(t, "*verifrt.")
	sc.nameSeq[t]++
	n := fmt.Sprintf("%s#%d", t, sc.nameSeq[t])
	sc.names[obj] = n
	return n
}

func schedSpawn(f func(), daemon bool, name string) *Thread {
	sc := s
	t := &Thread{ID: sc.nextID, Name: name, Daemon: daemon, wake: make(chan struct{}, 1)}
	sc.nextID++
	t.op = pendingOp{kind: OpStart, enabled: func() bool { return true }}
	t.parked = true
	sc.threads = append(sc.threads, t)
	go func() {
		if checkGoids {
			t.gid = goid()
		}
		<-t.wake
		defer func() {
			if r := recover(); r != nil {
				t.Panic = fmt.Sprintf("%v\n%s", r, debug.Stack())
				sc.panics = append(sc.panics, fmt.Sprintf("thread %d(%s): %v", t.ID, t.Name, r))
			}
			t.done = true
			if t.eagerWait != nil {
				ch := t.eagerWait
				t.eagerWait = nil
				ch <- struct{}{}
				return
			}
			sc.tlog("exit:T%d", t.ID)
			sc.events <- struct{}{}
		}()
		f()
	}()
	// Eager start: when spawned by a running thread, advance the child to its
	// first synchronisation point before the parent continues.
	if parent := sc.cur; parent != nil && !parent.parked && !sc.noEager {
		t.eagerWait = make(chan struct{}, 1)
		w := t.eagerWait
		sc.cur = t
		t.parked = false
		sc.tlog("eagerstart:T%d by T%d", t.ID, parent.ID)
		t.wake <- struct{}{}
		select {
		case <-w:
		case <-time.After(sc.stuckDur):
			// the child blocked in something the scheduler does not own: engine limitation, reported by RunPhase
			sc.stuck = true
		}
		sc.cur = parent
		sc.tlog("eagerdone:T%d", t.ID)
	}
	return t
}

// park blocks the calling thread at op until the scheduler selects it.
func (sc *sched) park(t *Thread, op pendingOp) {
	t.op = op
	t.parked = true
	if t.eagerWait != nil {
		ch := t.eagerWait
		t.eagerWait = nil
		sc.tlog("eagerpark:T%d:%s", t.ID, op.kind)
		ch <- struct{}{}
	} else {
		sc.tlog("park:T%d:%s", t.ID, op.kind)
		sc.events <- struct{}{}
	}
	<-t.wake
}

func goid() string {
	var b [64]byte
	n := runtime.Stack(b[:], false)
	f := strings.Fields(string(b[:n]))
	if len(f) > 1 {
		return f[1]
	}
	return "?"
}

var checkGoids = os.Getenv("VERIF_CHECK_GOID") != ""

var tokMu sync.Mutex

func (sc *sched) tlog(format string, a ...any) {
	if !checkGoids {
		return
	}
	tokMu.Lock()
	sc.tokLog = append(sc.tokLog, fmt.Sprintf(format, a...)+"@g"+goid())
	if len(sc.tokLog) > 60 {
		sc.tokLog = sc.tokLog[len(sc.tokLog)-60:]
	}
	tokMu.Unlock()
}

func curThread() *Thread {
	if s == nil || s.cur == nil {
		panic("verifrt: instrumented synchronisation outside a controlled thread")
	}
	if checkGoids && s.cur.gid != "" && s.cur.gid != goid() {
		panic(fmt.Sprintf("verifrt: goroutine %s performs a synchronisation operation but the running thread is T%d[%s] (goroutine %s)\n%s", goid(), s.cur.ID, s.cur.Name, s.cur.gid, debug.Stack()))
	}
	return s.cur
}

// point is the generic scheduling point used by the shims.
func point(kind OpKind, obj any, enabled func() bool) {
	sc := s
	t := curThread()
	if kind != OpLoad {
		t.loads = nil
	}
	sc.park(t, pendingOp{kind: kind, obj: obj, enabled: enabled})
}

// HarnessPoint lets harness code running inside a thread block until cond holds.
func HarnessPoint(name string, cond func() bool) {
	sc := s
	t := curThread()
	t.loads = nil
	sc.park(t, pendingOp{kind: OpHarness, objName: name, enabled: cond})
}

// Yield is an always-enabled scheduling point.
func Yield() {
	if controlled.Load() {
		point(OpYield, nil, func() bool { return true })
	}
}

func (sc *sched) describe(t *Thread) string {
	o := t.op
	name := o.objName
	if name == "" && o.obj != nil {
		name = sc.objName(o.obj)
	}
	return fmt.Sprintf("T%d[%s] %s %s", t.ID, t.Name, o.kind, name)
}

// RunPhase starts the given functions as new (non-daemon) threads and runs the
// scheduler until no thread is enabled.  Threads left parked (blocked daemons)
// persist into the next phase.
func RunPhase(chooser Chooser, names []string, mains ...func()) PhaseResult {
	sc := s
	sc.chooser = chooser
	sc.cur = nil
	sc.tlog("phase-begin")
	for i, m := range mains {
		n := fmt.Sprintf("main%d", i)
		if i < len(names) {
			n = names[i]
		}
		schedSpawn(m, false, n).Main = true
	}
	res := PhaseResult{}
	for {
		// wait for every released thread to park or finish
		for sc.running > 0 {
			select {
			case <-sc.events:
				sc.running--
			case <-time.After(sc.stuckDur):
				res.Stuck = true
				res.Panics = sc.panics
				return res
			}
		}
		if len(sc.panics) > 0 {
			res.Panics = append(res.Panics, sc.panics...)
			sc.panics = nil
		}
		if sc.stuck {
			res.Stuck = true
			return res
		}
		for _, t := range sc.threads {
			if !t.done && !t.parked {
				panic(fmt.Sprintf("verifrt: scheduler about to decide while T%d[%s] is still running (token log: %v)", t.ID, t.Name, sc.tokLog))
			}
		}
		var enabled []*Thread
		for _, t := range sc.threads {
			if !t.done && t.op.enabled() && !sc.spinBlocked(t) {
				enabled = append(enabled, t)
			}
		}
		if len(enabled) == 0 {
			onlySpin := true
			for _, t := range sc.threads {
				// a spawned (non-main) thread idle in a receive/select is a server loop waiting for
				// work (pub/sub channel goroutine, ticker loops), not a deadlock
				idle := !t.Main && (t.op.kind == OpRecv || t.op.kind == OpSelect)
				if !t.done && !t.Daemon && !idle {
					res.Deadlock = true
					res.Blocked = append(res.Blocked, sc.describe(t))
					if !(t.op.enabled() && sc.spinBlocked(t)) {
						onlySpin = false
					}
				}
			}
			if res.Deadlock && onlySpin {
				res.Livelock = true
			}
			// drop finished threads to keep the list short
			live := sc.threads[:0]
			for _, t := range sc.threads {
				if !t.done {
					live = append(live, t)
				}
			}
			sc.threads = live
			return res
		}
		if res.Points >= sc.maxPts {
			res.Truncated = true
			return res
		}
		// canonical order: current first if enabled, then ascending id
		sort.Slice(enabled, func(i, j int) bool { return enabled[i].ID < enabled[j].ID })
		curEnabled := false
		curID := -1
		if sc.cur != nil {
			curID = sc.cur.ID
			for i, t := range enabled {
				if t == sc.cur {
					curEnabled = true
					copy(enabled[1:i+1], enabled[:i])
					enabled[0] = t
					break
				}
			}
		}
		idx := 0
		if len(enabled) > 1 {
			p := Point{CurEnabled: curEnabled, Cur: curID}
			for _, t := range enabled {
				p.Enabled = append(p.Enabled, t.ID)
				p.Ops = append(p.Ops, sc.describe(t))
			}
			idx = sc.chooser.Choose(p)
			if idx < 0 || idx >= len(enabled) {
				panic(fmt.Sprintf("verifrt: chooser returned %d of %d", idx, len(enabled)))
			}
		}
		res.Points++
		t := enabled[idx]
		if sc.tracing {
			sc.trace = append(sc.trace, sc.describe(t))
		}
		sc.release(t)
	}
}

func (sc *sched) release(t *Thread) {
	// unbuffered channel rendezvous: release the partner too
	if (t.op.kind == OpRecv || t.op.kind == OpSend || t.op.kind == OpSelect) && !t.op.hasDef {
		if p := sc.partnerFor(t); p != nil {
			sc.rdv.Store(p)
			p.parked = false
			p.loads = nil
			sc.running++
			p.wake <- struct{}{}
		}
	}
	sc.cur = t
	t.parked = false
	sc.running++
	sc.tlog("release:T%d", t.ID)
	t.wake <- struct{}{}
}

// ---- atomics: spin detection ----

type atomCell struct{ version uint64 }

func (sc *sched) spinBlocked(t *Thread) bool {
	if t.op.kind != OpLoad || t.loads == nil {
		return false
	}
	c := t.op.obj.(*atomCell)
	v, seen := t.loads[c]
	if !seen || v != c.version {
		return false
	}
	// the thread is about to re-read an atomic it already read, unchanged, with
	// nothing but loads in between: a spin loop.  Block until one of the
	// atomics it read changes.
	for cell, ver := range t.loads {
		if cell.version != ver {
			return false
		}
	}
	return true
}

func atomLoadPoint(c *atomCell) {
	t := curThread()
	s.park(t, pendingOp{kind: OpLoad, obj: c, enabled: func() bool { return true }})
	if t.loads != nil {
		if v, seen := t.loads[c]; seen && v != c.version {
			t.loads = nil // woken by a change: start a fresh observation window
		}
	}
	if t.loads == nil {
		t.loads = map[*atomCell]uint64{}
	}
	t.loads[c] = c.version
}

func atomStorePoint(c *atomCell) {
	point(OpStore, c, func() bool { return true })
	c.version++
}

// ---- channels ----

func chanLenCap(ch any) (int, int) {
	v := reflect.ValueOf(ch)
	return v.Len(), v.Cap()
}

type chanWait struct {
	ch any
}

func (sc *sched) waitingOn(kind OpKind, key uintptr, except *Thread) *Thread {
	var best *Thread
	for _, t := range sc.threads {
		if t == except || t.done || !t.parked {
			continue
		}
		switch {
		case t.op.kind == kind && kind != OpSelect && t.op.obj == any(key):
		case kind == OpRecv && t.op.kind == OpSelect && !t.op.hasDef && containsKey(t.op.chans, key):
		default:
			continue
		}
		if best == nil || t.ID < best.ID {
			best = t
		}
	}
	return best
}

func containsKey(ks []uintptr, k uintptr) bool {
	for _, x := range ks {
		if x == k {
			return true
		}
	}
	return false
}

func (sc *sched) partnerFor(t *Thread) *Thread {
	switch t.op.kind {
	case OpSend:
		key := t.op.obj.(uintptr)
		if t.op.chans[0] != 0 { // cap stored in chans[0]: buffered
			return nil
		}
		return sc.waitingOn(OpRecv, key, t)
	case OpRecv:
		key := t.op.obj.(uintptr)
		if t.op.chans[0] != 0 {
			return nil
		}
		return sc.waitingOn(OpSend, key, t)
	case OpSelect:
		// receive-only select released because an unbuffered sender waits: pair with it,
		// unless a buffered channel of the select is ready (native select then may take either;
		// such mixes do not occur in the instrumented code)
		for _, k := range t.op.chans {
			if p := sc.waitingOn(OpSend, k, t); p != nil && p.op.chans[0] == 0 {
				return p
			}
		}
	}
	return nil
}

func schedBeforeRecv(ch any) {
	sc := s
	t := curThread()
	t.loads = nil
	key := chanKey(ch)
	_, c := chanLenCap(ch)
	sc.park(t, pendingOp{kind: OpRecv, obj: key, objName: sc.objName(key), chans: []uintptr{uintptr(c)}, enabled: func() bool {
		l, c := chanLenCap(ch)
		if c > 0 {
			return l > 0
		}
		return sc.waitingOn(OpSend, key, t) != nil
	}})
}

func schedAfterRecv(ch any) {
	sc := s
	// the receiver may be the partner of a rendezvous: park again at once
	if p := sc.rdv.Load(); p != nil && (p.op.kind == OpRecv || p.op.kind == OpSelect) {
		sc.rdv.Store(nil)
		sc.park(p, pendingOp{kind: OpYield, objName: "after-recv", enabled: func() bool { return true }})
	}
}

func schedBeforeSend(ch any) {
	sc := s
	t := curThread()
	t.loads = nil
	key := chanKey(ch)
	_, c := chanLenCap(ch)
	sc.park(t, pendingOp{kind: OpSend, obj: key, objName: sc.objName(key), chans: []uintptr{uintptr(c)}, enabled: func() bool {
		l, c := chanLenCap(ch)
		if c > 0 {
			return l < c
		}
		return sc.waitingOn(OpRecv, key, t) != nil
	}})
}

func schedAfterSend(ch any) {
	sc := s
	if p := sc.rdv.Load(); p != nil && p.op.kind == OpSend {
		sc.rdv.Store(nil)
		sc.park(p, pendingOp{kind: OpYield, objName: "after-send", enabled: func() bool { return true }})
	}
}

func schedBeforeSelect(hasDefault bool, chans []any) {
	sc := s
	t := curThread()
	t.loads = nil
	keys := make([]uintptr, len(chans))
	for i, c := range chans {
		keys[i] = chanKey(c)
	}
	sc.park(t, pendingOp{kind: OpSelect, objName: "select", chans: keys, hasDef: hasDefault, enabled: func() bool {
		if hasDefault {
			return true
		}
		for i, c := range chans {
			l, cp := chanLenCap(c)
			if cp > 0 && l > 0 {
				return true
			}
			if cp == 0 && sc.waitingOn(OpSend, keys[i], t) != nil {
				return true
			}
		}
		return false
	}})
}

func schedAfterDefault() {}

// SpawnDaemon starts a harness thread that is not required to finish.
func SpawnDaemon(name string, f func()) { schedSpawn(f, true, name) }

// MarkDaemon marks the calling thread as a daemon (its being blocked at the end is not a deadlock).
func MarkDaemon() {
	if controlled.Load() && s.cur != nil {
		s.cur.Daemon = true
	}
}
