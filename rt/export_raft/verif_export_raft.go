//go:build verif

package raft

import "time"

// Read-only accessors for the cluster check (C07); added to package internal/raft by the check-time overlay only.

// VerifAppliedIndex is the index of the last log entry this node's state machine has applied.
func (r *Raft) VerifAppliedIndex() uint64 {
	if r == nil || r.raft == nil {
		return 0
	}
	return r.raft.AppliedIndex()
}

// VerifLastIndex is the index of the last log entry this node has stored.
func (r *Raft) VerifLastIndex() uint64 {
	if r == nil || r.raft == nil {
		return 0
	}
	return r.raft.LastIndex()
}

// VerifState is the raft role of this node (Leader, Follower, Candidate, Shutdown).
func (r *Raft) VerifState() string {
	if r == nil || r.raft == nil {
		return "none"
	}
	return r.raft.State().String()
}

// VerifNumPeers is the number of voters in the latest configuration.
func (r *Raft) VerifNumPeers() int {
	if r == nil || r.raft == nil {
		return 0
	}
	f := r.raft.GetConfiguration()
	if f.Error() != nil {
		return 0
	}
	return len(f.Configuration().Servers)
}

// VerifSnapshotTo takes a raft snapshot of this node exactly as raft does it (FSM.Snapshot, Persist into the node's
// snapshot store) and restores it on dst through raft's own Restore (FSM.Restore on dst).
func (r *Raft) VerifSnapshotTo(dst *Raft) error {
	f := r.raft.Snapshot()
	if err := f.Error(); err != nil {
		return err
	}
	meta, rc, err := f.Open()
	if err != nil {
		return err
	}
	defer rc.Close()
	return dst.raft.Restore(meta, rc, 10*time.Second)
}
