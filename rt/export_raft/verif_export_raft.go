//go:build verif

package raft

import (
	"bytes"
	"fmt"
	"io"
	"time"

	"github.com/hashicorp/raft"
)

// Read-only accessors for the cluster check (C07); added to package internal/raft by the check-time overlay only.

// VerifAppliedIndex is the index of the last log entry this node's state machine has applied.
func (r *Raft) VerifAppliedIndex() uint64 {
	if r == nil || r.raft == nil {
		return 0
	}
	return r.raft.AppliedIndex()
}

// VerifLastIndex is the index of the last log entry this node has stored.
func (r *Raft) VerifLastIndex() uint64 {
	if r == nil || r.raft == nil {
		return 0
	}
	return r.raft.LastIndex()
}

// VerifState is the raft role of this node (Leader, Follower, Candidate, Shutdown).
func (r *Raft) VerifState() string {
	if r == nil || r.raft == nil {
		return "none"
	}
	return r.raft.State().String()
}

// VerifNumPeers is the number of voters in the latest configuration.
func (r *Raft) VerifNumPeers() int {
	if r == nil || r.raft == nil {
		return 0
	}
	f := r.raft.GetConfiguration()
	if f.Error() != nil {
		return 0
	}
	return len(f.Configuration().Servers)
}

// VerifSnapshotTo takes a raft snapshot of this node exactly as raft does it (FSM.Snapshot, Persist into the node's
// snapshot store) and restores it on dst through raft's own Restore (FSM.Restore on dst).
func (r *Raft) VerifSnapshotTo(dst *Raft) error {
	f := r.raft.Snapshot()
	if err := f.Error(); err != nil {
		return err
	}
	meta, rc, err := f.Open()
	if err != nil {
		return err
	}
	defer rc.Close()
	return dst.raft.Restore(meta, rc, 10*time.Second)
}

// ---- FSM snapshot protocol, driven the way raft drives it (Snapshot on the FSM goroutine, Persist later) ----

func (r *Raft) verifFSM() raft.FSM {
	return NewFSM(FSMOpts{
		Config:                r.options.Config,
		GetState:              r.options.GetState,
		GetCommand:            r.options.GetCommand,
		SetValues:             r.options.SetValues,
		SetExpiry:             r.options.SetExpiry,
		DeleteKey:             r.options.DeleteKey,
		StartSnapshot:         r.options.StartSnapshot,
		FinishSnapshot:        r.options.FinishSnapshot,
		SetLatestSnapshotTime: r.options.SetLatestSnapshotTime,
		GetHandlerFuncParams:  r.options.GetHandlerFuncParams,
	})
}

// VerifFSMSnapshot calls FSM.Snapshot (raft calls it between two Apply calls; the state it denotes is the state now).
func (r *Raft) VerifFSMSnapshot() (raft.FSMSnapshot, error) { return r.verifFSM().Snapshot() }

type verifSink struct {
	id  string
	buf bytes.Buffer
}

func (s *verifSink) Write(p []byte) (int, error) { return s.buf.Write(p) }
func (s *verifSink) Close() error                { return nil }
func (s *verifSink) ID() string                  { return s.id }
func (s *verifSink) Cancel() error               { return nil }

// VerifPersist calls Persist + Release on a snapshot object (raft does this later, on another goroutine) and returns the bytes.
func VerifPersist(s raft.FSMSnapshot, msec int64) ([]byte, error) {
	sink := &verifSink{id: fmt.Sprintf("2-10-%d", msec)}
	err := s.Persist(sink)
	s.Release()
	return sink.buf.Bytes(), err
}

// VerifFSMRestore feeds snapshot bytes to FSM.Restore of this node.
func (r *Raft) VerifFSMRestore(data []byte) error {
	return r.verifFSM().Restore(io.NopCloser(bytes.NewReader(data)))
}
