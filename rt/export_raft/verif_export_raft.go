//go:build verif

package raft

// Read-only accessors for the cluster check (C07); added to package internal/raft by the check-time overlay only.

// VerifAppliedIndex is the index of the last log entry this node's state machine has applied.
func (r *Raft) VerifAppliedIndex() uint64 {
	if r == nil || r.raft == nil {
		return 0
	}
	return r.raft.AppliedIndex()
}

// VerifLastIndex is the index of the last log entry this node has stored.
func (r *Raft) VerifLastIndex() uint64 {
	if r == nil || r.raft == nil {
		return 0
	}
	return r.raft.LastIndex()
}

// VerifState is the raft role of this node (Leader, Follower, Candidate, Shutdown).
func (r *Raft) VerifState() string {
	if r == nil || r.raft == nil {
		return "none"
	}
	return r.raft.State().String()
}

// VerifNumPeers is the number of voters in the latest configuration.
func (r *Raft) VerifNumPeers() int {
	if r == nil || r.raft == nil {
		return 0
	}
	f := r.raft.GetConfiguration()
	if f.Error() != nil {
		return 0
	}
	return len(f.Configuration().Servers)
}
