//go:build verif

// This file is added to package sugardb by the verification overlay only (it
// is not part of the repository).  It exposes private state and private entry
// points to the harness and contains no behaviour of its own.
package sugardb

import (
	"context"
	"fmt"
	"net"
	"reflect"
	"sort"
	"strconv"
	"strings"
	"time"

	"github.com/echovault/sugardb/internal"
	sraft "github.com/echovault/sugardb/internal/raft"
	"github.com/echovault/sugardb/verifrt"
	hraft "github.com/hashicorp/raft"
)

// VerifFloatPrefix marks floating point numbers in deep dumps.
const VerifFloatPrefix = "\x01f:"

// VerifEntry is one key of the dataset in concrete form.
type VerifEntry struct {
	Value    any   // canonical deep dump of the stored value (see verifDeep)
	GoType   string
	ExpireMs int64 // 0 = no deadline
	Mem      int64 // GetMem of the entry (-1 on error)
	Refs     [][2]uintptr `json:"-"` // address ranges of every pointer/map/slice reachable from the value (aliasing detection)
}

type VerifDump struct {
	Store          map[int]map[string]VerifEntry
	KeysWithExpiry map[int][]string
	MemUsed        int64
	LFU            map[int]any
	LRU            map[int]any
	Embedded       internal.ConnectionInfo
	Conns          map[string]internal.ConnectionInfo // by connection name given at registration
	StateCopy      bool
	StateMutation  bool
	SnapshotInProg bool
	RewriteInProg  bool
	LatestSnapshot int64
	ChangeCount    uint64 // snapshot engine's write counter (hidden state that decides the automatic trigger)
	ACLUsers       []any             // deep dump of every user profile (order preserved)
	ACLConns       map[string]string // connection -> "<authenticated>|<username>|same-object-as-table=<bool>"
	PubSub         []string // subscription table: "<channel>|pattern=<bool>|<conn>,<conn>..." sorted
}

// VerifDumpState returns a deep, sorted copy of the private state.  Must be
// called when the instance is quiescent.
func (server *SugarDB) VerifDumpState(connNames map[*net.Conn]string) VerifDump {
	d := VerifDump{
		Store:          map[int]map[string]VerifEntry{},
		KeysWithExpiry: map[int][]string{},
		MemUsed:        server.memUsed,
		LFU:            map[int]any{},
		LRU:            map[int]any{},
		Embedded:       server.connInfo.embedded,
		Conns:          map[string]internal.ConnectionInfo{},
		StateCopy:      server.stateCopyInProgress.Load(),
		StateMutation:  server.stateMutationInProgress.Load(),
		SnapshotInProg: server.snapshotInProgress.Load(),
		RewriteInProg:  server.rewriteAOFInProgress.Load(),
		LatestSnapshot: server.latestSnapshotMilliseconds.Load(),
	}
	d.PubSub = server.verifPubSubTable()
	if server.acl != nil {
		d.ACLConns = map[string]string{}
		for _, u := range server.acl.Users {
			d.ACLUsers = append(d.ACLUsers, verifDeep(reflect.ValueOf(u), 0))
		}
		for c, info := range server.connInfo.tcpClients {
			if ac, ok := server.acl.Connections[c]; ok {
				name, inTable := "<nil>", false
				if ac.User != nil {
					name = ac.User.Username
					for _, u := range server.acl.Users {
						if u == ac.User {
							inTable = true
						}
					}
				}
				d.ACLConns[fmt.Sprintf("c%d", info.Id-1)] = fmt.Sprintf("%v|%s|live=%v", ac.Authenticated, name, inTable)
			}
		}
	}
	if server.snapshotEngine != nil {
		if f := reflect.ValueOf(server.snapshotEngine).Elem().FieldByName("changeCount"); f.IsValid() {
			for f.Kind() == reflect.Struct && f.NumField() > 0 {
				inner := f.FieldByName("v")
				if !inner.IsValid() {
					break
				}
				f = inner
			}
			if f.Kind() == reflect.Uint64 {
				d.ChangeCount = f.Uint()
			}
		}
	}
	for db, m := range server.store {
		d.Store[db] = map[string]VerifEntry{}
		for k, kd := range m {
			e := VerifEntry{GoType: fmt.Sprintf("%T", kd.Value)}
			if !kd.ExpireAt.IsZero() {
				e.ExpireMs = kd.ExpireAt.UnixMilli()
				if e.ExpireMs == 0 {
					e.ExpireMs = 1
				}
			}
			e.Value = verifDeep(reflect.ValueOf(kd.Value), 0)
			kdc := kd
			if mem, err := kdc.GetMem(); err == nil {
				e.Mem = mem
			} else {
				e.Mem = -1
			}
			verifRefs(reflect.ValueOf(kd.Value), &e.Refs, 0)
			d.Store[db][k] = e
		}
	}
	for db, ks := range server.keysWithExpiry.keys {
		d.KeysWithExpiry[db] = append([]string{}, ks...)
	}
	for db, c := range server.lfuCache.cache {
		d.LFU[db] = verifDeep(reflect.ValueOf(c), 0)
	}
	for db, c := range server.lruCache.cache {
		d.LRU[db] = verifDeep(reflect.ValueOf(c), 0)
	}
	_ = connNames
	for _, info := range server.connInfo.tcpClients {
		// connections are named by their id: the harness opens them one at a time, so id k is connection c<k-1>
		d.Conns[fmt.Sprintf("c%d", info.Id-1)] = info
	}
	return d
}

// verifDeep renders any value (including unexported fields) as nested
// maps/slices of basic values with deterministic ordering.
func verifDeep(v reflect.Value, depth int) any {
	if depth > 12 {
		return "<depth>"
	}
	if !v.IsValid() {
		return nil
	}
	switch v.Kind() {
	case reflect.Interface, reflect.Ptr:
		if v.IsNil() {
			return nil
		}
		return verifDeep(v.Elem(), depth+1)
	case reflect.Bool:
		return v.Bool()
	case reflect.Int, reflect.Int8, reflect.Int16, reflect.Int32, reflect.Int64:
		return v.Int()
	case reflect.Uint, reflect.Uint8, reflect.Uint16, reflect.Uint32, reflect.Uint64, reflect.Uintptr:
		return v.Uint()
	case reflect.Float32, reflect.Float64:
		// rendered as text so that Inf/NaN survive JSON encoding of dumps
		return VerifFloatPrefix + strconv.FormatFloat(v.Float(), 'g', -1, 64)
	case reflect.String:
		return v.String()
	case reflect.Slice, reflect.Array:
		if v.Kind() == reflect.Slice && v.IsNil() {
			return []any{}
		}
		out := make([]any, v.Len())
		for i := 0; i < v.Len(); i++ {
			out[i] = verifDeep(v.Index(i), depth+1)
		}
		return out
	case reflect.Map:
		type kv struct {
			k string
			v any
		}
		var kvs []kv
		it := v.MapRange()
		for it.Next() {
			kvs = append(kvs, kv{fmt.Sprint(verifDeep(it.Key(), depth+1)), verifDeep(it.Value(), depth+1)})
		}
		sort.Slice(kvs, func(i, j int) bool { return kvs[i].k < kvs[j].k })
		out := make([]any, 0, len(kvs))
		for _, e := range kvs {
			out = append(out, []any{e.k, e.v})
		}
		return map[string]any{"map": out}
	case reflect.Struct:
		t := v.Type()
		if t.PkgPath() == "github.com/echovault/sugardb/verifrt" || t.PkgPath() == "sync" || t.PkgPath() == "sync/atomic" {
			return nil
		}
		if t == reflect.TypeOf(time.Time{}) {
			if v.CanInterface() {
				return v.Interface().(time.Time).UnixMilli()
			}
			return "<time>"
		}
		out := map[string]any{}
		for i := 0; i < v.NumField(); i++ {
			f := verifDeep(v.Field(i), depth+1)
			out[t.Field(i).Name] = f
		}
		return out
	default: // func, chan, unsafe pointer
		return nil
	}
}

// verifRefs collects the address ranges of all mutable structure reachable from v.
func verifRefs(v reflect.Value, out *[][2]uintptr, depth int) {
	if depth > 12 || !v.IsValid() {
		return
	}
	switch v.Kind() {
	case reflect.Interface:
		if !v.IsNil() {
			verifRefs(v.Elem(), out, depth+1)
		}
	case reflect.Ptr:
		if !v.IsNil() {
			p := v.Pointer()
			sz := v.Type().Elem().Size()
			if sz > 0 {
				*out = append(*out, [2]uintptr{p, p + sz})
			}
			verifRefs(v.Elem(), out, depth+1)
		}
	case reflect.Map:
		if !v.IsNil() {
			p := v.Pointer()
			*out = append(*out, [2]uintptr{p, p + 1})
			it := v.MapRange()
			for it.Next() {
				verifRefs(it.Value(), out, depth+1)
			}
		}
	case reflect.Slice:
		if !v.IsNil() && v.Cap() > 0 {
			p := v.Pointer()
			*out = append(*out, [2]uintptr{p, p + uintptr(v.Cap())*v.Type().Elem().Size()})
			for i := 0; i < v.Len(); i++ {
				verifRefs(v.Index(i), out, depth+1)
			}
		}
	case reflect.Struct:
		for i := 0; i < v.NumField(); i++ {
			verifRefs(v.Field(i), out, depth+1)
		}
	}
}

// VerifServeConn runs the real connection loop on conn (blocks until the loop ends).
func (server *SugarDB) VerifServeConn(conn net.Conn) { server.handleConnection(conn) }

// VerifRegisterConn performs exactly the registration steps of handleConnection
// for callers that drive handleCommand directly (the scheduler harness).
func (server *SugarDB) VerifRegisterConn(conn *net.Conn) {
	if server.acl != nil {
		server.acl.RegisterConnection(conn)
	}
	cid := server.connId.Add(1)
	server.connInfo.mut.Lock()
	server.connInfo.tcpClients[conn] = internal.ConnectionInfo{Id: cid, Name: "", Protocol: 2, Database: 0}
	server.connInfo.mut.Unlock()
}

// VerifHandle calls the real dispatcher the way the connection loop does.
func (server *SugarDB) VerifHandle(conn *net.Conn, message []byte) ([]byte, error) {
	return server.handleCommand(server.context, message, conn, false, false)
}

// VerifHandleEmbedded calls the real dispatcher the way the embedded API does.
func (server *SugarDB) VerifHandleEmbedded(cmd []string) ([]byte, error) {
	return server.handleCommand(server.context, internal.EncodeCommand(cmd), nil, false, true)
}

func (server *SugarDB) VerifTakeSnapshot() error { return server.snapshotEngine.TakeSnapshot() }
func (server *SugarDB) VerifRewriteAOF() error   { return server.rewriteAOF() }
func (server *SugarDB) VerifSamplerTick(database int) error {
	ctx := context.WithValue(context.Background(), "Database", database)
	return server.evictKeysWithExpiredTTL(ctx)
}
func (server *SugarDB) VerifGetState() map[int]map[string]interface{} { return server.getState() }
func (server *SugarDB) VerifMemUsed() int64                         { return server.memUsed }
func (server *SugarDB) VerifACL() interface{}                       { return server.acl }
func (server *SugarDB) VerifPubSub() interface{}                    { return server.pubSub }
func (server *SugarDB) VerifDeep(v any) any                         { return verifDeep(reflect.ValueOf(v), 0) }
func (server *SugarDB) VerifIsCluster() bool                        { return server.isInCluster() }
func (server *SugarDB) VerifIsLeader() bool {
	return server.isInCluster() && server.raft.IsRaftLeader()
}

// VerifCopyDatasetTo loads the current dataset of server into dst with one
// setValues (+ setExpiry) per key — the same calls snapshot/AOF restore use —
// sharing the stored values by reference (dst is only used to read its memory figure).
func (server *SugarDB) VerifCopyDatasetTo(dst *SugarDB) error {
	for db, m := range server.store {
		ctx := context.WithValue(context.Background(), "Database", db)
		for k, kd := range m {
			if err := dst.setValues(ctx, map[string]interface{}{k: kd.Value}); err != nil {
				return err
			}
			if !kd.ExpireAt.IsZero() {
				dst.setExpiry(ctx, k, kd.ExpireAt, false)
			}
		}
	}
	return nil
}

// verifPubSubTable renders the pub/sub subscription table (private to package pubsub) by reflection.
func (server *SugarDB) verifPubSubTable() []string {
	out := []string{}
	if server.pubSub == nil {
		return out
	}
	ids := map[uintptr]string{}
	for c, info := range server.connInfo.tcpClients {
		ids[reflect.ValueOf(c).Pointer()] = fmt.Sprintf("c%d", info.Id-1)
	}
	chs := reflect.ValueOf(server.pubSub).Elem().FieldByName("channels")
	for i := 0; i < chs.Len(); i++ {
		ch := chs.Index(i).Elem()
		name := ch.FieldByName("name").String()
		isPat := !ch.FieldByName("pattern").IsNil()
		var subs []string
		it := ch.FieldByName("subscribers").MapRange()
		for it.Next() {
			p := it.Key().Pointer()
			if n, ok := ids[p]; ok {
				subs = append(subs, n)
			} else {
				subs = append(subs, "embedded-or-unknown")
			}
		}
		sort.Strings(subs)
		out = append(out, fmt.Sprintf("%s|pattern=%v|%v", name, isPat, subs))
	}
	sort.Strings(out)
	return out
}

// VerifCommandCategories returns the ACL categories of a command (and of its subcommand when cmd names one)
// together with the name the ACL uses for it ("cmd" or "cmd|sub").
func (server *SugarDB) VerifCommandCategories(cmd []string) (string, []string) {
	c, err := server.getCommand(cmd[0])
	if err != nil {
		return "", nil
	}
	name := c.Command
	cats := append([]string{}, c.Categories...)
	if sc, err := internal.GetSubCommand(c, cmd); err == nil {
		if s, ok := sc.(internal.SubCommand); ok {
			name = c.Command + "|" + s.Command
			cats = append(cats, s.Categories...)
		}
	}
	return name, cats
}

// ---- cluster (C07) ----

// VerifRaftApplied / VerifRaftLast / VerifRaftState expose the raft progress of a cluster node.
func (server *SugarDB) VerifRaftApplied() uint64 { return server.raft.VerifAppliedIndex() }
func (server *SugarDB) VerifRaftLast() uint64    { return server.raft.VerifLastIndex() }
func (server *SugarDB) VerifRaftState() string   { return server.raft.VerifState() }
func (server *SugarDB) VerifRaftPeers() int      { return server.raft.VerifNumPeers() }
func (server *SugarDB) VerifInCluster() bool     { return server.isInCluster() }

// VerifFSMSnapshotBegin / VerifFSMSnapshotFinish: FSM.Snapshot now; later (after more entries have been applied) Persist,
// and the bytes are restored on dst with FSM.Restore - the order in which raft itself calls these.
var verifPendingSnapshot interface {
	Persist(sink hraft.SnapshotSink) error
	Release()
}

func (server *SugarDB) VerifFSMSnapshotBegin() error {
	snap, err := server.raft.VerifFSMSnapshot()
	verifPendingSnapshot = snap
	return err
}

func (server *SugarDB) VerifFSMSnapshotFinish(dst *SugarDB, msec int64) error {
	data, err := sraft.VerifPersist(verifPendingSnapshot, msec)
	verifPendingSnapshot = nil
	if err != nil {
		return err
	}
	return dst.raft.VerifFSMRestore(data)
}

// VerifRaftTakeSnapshot: a user-triggered raft snapshot on this node (what SAVE does in cluster mode).
func (server *SugarDB) VerifRaftTakeSnapshot() error { return server.raft.TakeSnapshot() }

// VerifRaftSnapshotTo: a real raft snapshot of this node, restored on dst through raft.
func (server *SugarDB) VerifRaftSnapshotTo(dst *SugarDB) error {
	return server.raft.VerifSnapshotTo(dst.raft)
}

// VerifCommandSync lists, per command (and "cmd|sub"), whether it is replicated through raft.
func (server *SugarDB) VerifCommandSync() map[string]bool {
	out := map[string]bool{}
	for _, c := range server.commands {
		out[strings.ToUpper(c.Command)] = c.Sync
		for _, sc := range c.SubCommands {
			out[strings.ToUpper(c.Command)+"|"+strings.ToUpper(sc.Command)] = sc.Sync
		}
	}
	return out
}

// VerifEmbeddedTake returns what the server has sent to the embedded subscriber registered under tag (ok=false when the
// tag has no pipe).  Under instrumentation the pipe is verifrt.NetPipe, whose writes never block.
func VerifEmbeddedTake(tag string) ([]byte, bool) {
	c, ok := connections.Load(tag)
	if !ok {
		return nil, false
	}
	pe, ok := (*c.(conn).readConn).(*verifrt.PipeEnd)
	if !ok {
		return nil, false
	}
	return pe.Take(), true
}
